import Originium.Model.SysProofs
import Originium.Model.TxnTie
/-! # C06 — committed transactions are strictly serializable

Witness order: a transaction that committed writes at timestamp `c` takes position `c`; a read-only
transaction (or one that wrote nothing) with read timestamp `r` comes right after the commit with
timestamp `r`.  Serial execution in that order gives transaction T the state produced by all
commits with timestamp `< c` (resp. `≤ r`), which is `specAt all (c - 1)` (resp. `specAt all r`). -/
namespace Props
open Sys

/-- Every Get of every transaction returned what the transactions preceding it in the serial order
    had written: for a transaction that committed at `c`, each of its store reads equals the value
    just before position `c`; for every transaction, each read equals the value at its snapshot.
    Holds in every reachable state of every interleaving (any number of transactions, commits racing
    Begin and each other, rotation, flush and compaction in between). -/
theorem C06_serial_reads (steps : List Sys.Step) (s : Sys.St) (hrun : Sys.run steps = some s) :
    (∀ t ∈ s.o.txns, ∀ c, t.commitTs = some c → ∀ kv ∈ t.obs, kv.2 = Oracle2.specAt s.o.all (c - 1) kv.1) ∧
    (∀ t ∈ s.o.txns, ∀ kv ∈ t.obs, kv.2 = Oracle2.specAt s.o.all t.readTs kv.1) := by
  have h2 := Oracle2.reads_serial (sinv_run hrun).reach
  exact ⟨h2.serial, h2.snap⟩

/-- the order respects real time: when a transaction begins, every transaction whose Commit has
    already succeeded has a commit timestamp at or below the new read timestamp, and the new
    transaction's own commit timestamp (if it commits) is above its read timestamp — so it comes
    after all of them in the serial order -/
theorem C06_real_time (s s' : Oracle2.St) (hr : Oracle2.Reach s) (u : Bool)
    (hs : Oracle2.step s (.begin u) = some s') :
    ∃ tnew, s'.txns.getLast? = some tnew ∧
      (∀ told ∈ s.txns, ∀ c, told.commitTs = some c → c ≤ tnew.readTs) := by
  have h2 := Oracle2.reads_serial hr
  simp only [Oracle2.step, Option.some.injEq] at hs
  subst hs
  refine ⟨{ readTs := s.nextTs - 1, update := u, reads := [], writes := [], doneRead := false, finished := false, obs := [], commitTs := none }, by simp, ?_⟩
  intro told ht c hc
  have := (h2.commit_lt told ht c hc).2
  show c ≤ s.nextTs - 1
  omega

/-- a committed transaction's timestamp lies above its read timestamp (it is ordered after everything it could see) -/
theorem C06_commit_after_snapshot (steps : List Sys.Step) (s : Sys.St) (hrun : Sys.run steps = some s) :
    ∀ t ∈ s.o.txns, ∀ c, t.commitTs = some c → t.readTs < c ∧ c < s.o.nextTs :=
  (Oracle2.reads_serial (sinv_run hrun).reach).commit_lt

/-- consequence (no lost update, no write skew on read keys): a transaction whose Commit is accepted
    read no key that a transaction committed after its snapshot has written -/
theorem C06_validated (s : Oracle2.St) (hr : Oracle2.Reach s) (t : Oracle2.Txn) (ht : t ∈ s.txns)
    (hopen : t.doneRead = false) (hnc : Oracle2.hasConflict s.recent t = false) :
    ∀ c ∈ s.all, t.readTs < c.ts → ∀ k ∈ t.reads, k ∉ Oracle2.wkeys c :=
  Oracle2.no_conflict_inv (Oracle2.inv_reach hr) ht hopen hnc

/-- no read of never-committed data: every value in the MVCC map comes from a commit in the history -/
theorem C06_only_committed (all : List Oracle2.Commit) (r : Nat) (k : Oracle2.Key) (v : List UInt8)
    (h : Oracle2.specAt all r k = some v) : ∃ c ∈ all, c.ts ≤ r ∧ Oracle2.lookupW k c.writes = some (some v) := by
  unfold Oracle2.specAt at h
  suffices key : ∀ acc : Oracle2.Val,
      all.foldl (fun acc c => if c.ts ≤ r then (match Oracle2.lookupW k c.writes with | some v => v | none => acc) else acc) acc = some v →
      acc = some v ∨ ∃ c ∈ all, c.ts ≤ r ∧ Oracle2.lookupW k c.writes = some (some v) by
    rcases key none h with h' | h'
    · cases h'
    · exact h'
  clear h
  induction all with
  | nil => intro acc h; exact Or.inl h
  | cons c rest ih =>
    intro acc h
    simp only [List.foldl_cons] at h
    rcases ih _ h with h' | ⟨c', hc', h1, h2⟩
    · by_cases hc : c.ts ≤ r
      · simp only [hc, ↓reduceIte] at h'
        cases hl : Oracle2.lookupW k c.writes with
        | none => rw [hl] at h'; exact Or.inl h'
        | some w =>
          rw [hl] at h'
          simp only at h'
          exact Or.inr ⟨c, by simp, hc, by rw [hl, h']⟩
      · simp only [hc, ↓reduceIte] at h'; exact Or.inl h'
    · exact Or.inr ⟨c', by simp [hc'], h1, h2⟩


/-- the validation the serial order rests on is the one the Go code performs: the conflict check and the read recording
    of the model's commit / get steps are the translated `oracle.hasConflict` and `Txn.Get` (regenerated from /repo on
    every run), for every committed list, read set and write buffer -/
theorem C06_code_validation (recent : List Oracle2.Commit) (t : Oracle2.Txn) (k : List UInt8) (hk : k ≠ []) :
    GenOracle.hasConflict t.reads t.readTs (recent.map OracleTie.ctOf) = Oracle2.hasConflict recent t ∧
    (GenTxn.get (!t.update) false k t.readTs (TxnTie.pendOf t.writes) t.reads).2 =
      (if t.update && !(t.writes.map (·.1)).contains k then t.reads ++ [k] else t.reads) ∧
    (GenTxn.get (!t.update) false k t.readTs (TxnTie.pendOf t.writes) t.reads).1 =
      (if t.update then
        match Oracle2.lookupW k t.writes with
        | some (some b) => GenTxn.R.direct b true
        | some none => GenTxn.R.direct [] false
        | none => GenTxn.R.search k t.readTs
       else GenTxn.R.search k t.readTs) := by
  refine ⟨OracleTie.hasConflict_tie recent t, TxnTie.get_records_iff t k hk t.reads, ?_⟩
  rw [TxnTie.get_table t k hk]
  cases t.update with
  | false => rfl
  | true =>
    simp only [↓reduceIte]
    cases Oracle2.lookupW k t.writes with
    | none => rfl
    | some v => cases v <;> rfl

#print axioms C06_serial_reads
#print axioms C06_real_time
#print axioms C06_commit_after_snapshot
#print axioms C06_validated
#print axioms C06_only_committed
#print axioms C06_code_validation
end Props
