import Originium.Model.DiskProgMain
import Originium.Model.Wal
import Originium.Model.LevelTie
import Originium.Model.WalTie
/-! # C14 — losing unsynced file tails in a crash loses no acknowledged commit

`CutOf d d'`: every wal keeps at least its synced records and loses any suffix of the rest (at the
byte level a torn last record reads as a record prefix: `C11_wal_torn`), temporary table files are
cut arbitrarily (recovery ignores them), published tables are intact (a table is renamed to its
final name only after it was synced). -/
namespace Props
open Key VKey Table Levels LSM Disk

theorem wf_cut {d d' : D} (hw : WF d) (hc : CutOf d d') : WF d' := by
  obtain ⟨htab, hlen, hcut⟩ := hc
  refine ⟨by rw [htab]; exact hw.tables_sorted, ?_⟩
  apply consistent_of_sub _ hw.consistent
  intro x hx
  rcases surviving_mem.mp hx with hx | hx
  · obtain ⟨w, hwm, hew⟩ := mem_allRecs.mp hx
    obtain ⟨i, hi, rfl⟩ := List.getElem_of_mem hwm
    obtain ⟨_, _, n, _, hr⟩ := hcut i (by omega) hi
    rw [hr] at hew
    exact surviving_mem.mpr (Or.inl (mem_allRecs.mpr ⟨d.wals[i]'(by omega), List.getElem_mem _, List.mem_of_mem_take hew⟩))
  · exact surviving_mem.mpr (Or.inr (by simpa [tableEnts, htab] using hx))

/-- after any accepted trace, at any crash point, with any loss of unsynced tails: Open recovers an
    ordinary state and every acknowledged entry is visible unless replaced by a newer write -/
theorem C14_lossy_crash (mayContain : TableM → Bytes → Bool)
    (hbloom : ∀ t e, e ∈ t.entries → mayContain t e.key.user = true)
    (evs : List Ev) (s : TSt) (h : acceptAll evs = some s) (d' : D) (hc : CutOf s.d d') (bs : Nat) :
    DB.Inv (recover bs d') ∧
    ∀ e ∈ s.acked, ∀ r, s.low ≤ r → e.key.ts ≤ r →
      ∃ x, DB.get mayContain (recover bs d') e.key.user r = some x ∧ e.key.ts ≤ x.key.ts ∧ x.key.user = e.key.user := by
  have ht := tinv_acceptAll h
  have hinv' := inv_cut ht.inv hc
  have hwf' := wf_cut ht.wf hc
  refine ⟨recover_inv bs hinv' hwf', ?_⟩
  intro e he r hr her
  have hk : Kept d' s.low e := by
    rcases hinv'.durable e he with h1 | h1 | h1
    · exact Or.inl (synced_sub_all h1)
    · exact Or.inr (Or.inl h1)
    · exact Or.inr (Or.inr h1)
  obtain ⟨x, hx, h1, _, h3, _⟩ := recover_visible mayContain hbloom bs hinv' hwf' e hk r hr her
  exact ⟨x, hx, h1, h3⟩

/-- "nothing is acknowledged, and no file is deleted or relied upon, before the data that replaces it
    has been synced": these are exactly the guards an accepted trace has passed —
    an acknowledgement needs the batch in the synced part of a wal (or, when the flusher was faster
    than the acknowledgement, in a published table, which is synced before it is renamed) … -/
theorem C14_ack_after_sync (s s' : TSt) (b : List E) (h : accept s (.ack b) = some s') :
    ∀ e ∈ b, e ∈ syncedRecs s.d ∨ e ∈ tableEnts s.d := by
  simp only [accept] at h
  split at h
  · rename_i hg; exact hg
  · cases h

/-- … a table appears under its final name only when complete and synced, with content that is already durable … -/
theorem C14_publish_after_sync (s s' : TSt) (n : Nat) (h : accept s (.op (.publish n)) = some s') :
    ∃ t, s.d.tmps.find? (·.name = n) = some t ∧ t.synced = true ∧ ∀ e ∈ t.ents, e ∈ syncedRecs s.d ∨ e ∈ tableEnts s.d := by
  simp only [accept] at h
  split at h
  · rename_i hg
    have g := hg.1
    simp only [Guard] at g
    cases hf : s.d.tmps.find? (·.name = n) with
    | none => rw [hf] at g; exact absurd g id
    | some t => rw [hf] at g; exact ⟨t, rfl, g.1, g.2.2⟩
  · cases h

/-- … and a wal file is deleted only when each of its records is in the synced part of another wal or in a published table -/
theorem C14_remove_after_replacement (s s' : TSt) (id : Nat) (h : accept s (.op (.walRemove id)) = some s') :
    ∀ w ∈ s.d.wals, w.id = id → ∀ e ∈ w.recs,
      (∃ w' ∈ s.d.wals, w'.id ≠ id ∧ e ∈ w'.recs.take w'.synced) ∨ e ∈ tableEnts s.d := by
  simp only [accept] at h
  split at h
  · rename_i hg
    intro w hw hid e he
    rcases hg.1 w hw hid e he with h1 | h1
    · exact Or.inl h1
    · exact Or.inr h1.1
  · cases h

/-- the byte-level fact behind `CutOf` for wal files (from C11) -/
theorem C14_torn_wal_is_prefix (es : List Codec.Entry) (hw : ∀ e ∈ es, Codec.WalWF e)
    (hl : ∀ e ∈ es, (Codec.thriftEntry e).length < 2 ^ 64) (n : Nat) :
    ∃ j, Codec.readWal (es.length + 1) ((Codec.walBatch es).take n) = some (es.take j) :=
  let ⟨j, hj, _⟩ := Codec.readWal_torn es hw hl n _ (by omega); ⟨j, hj⟩

/-- every execution of the modelled engine in which each crash may additionally lose any unsynced
    tails (`Prog.Reach`: a crash step leaves any disk `d'` with `CutOf d d'`; all schedules, any
    number of crashes and recoveries, crashed recoveries included): at every reachable point Open
    succeeds and every acknowledged entry is visible unless a newer write replaced it -/
theorem C14_program_lossy (mayContain : TableM → Bytes → Bool)
    (hbloom : ∀ t e, e ∈ t.entries → mayContain t e.key.user = true)
    {s : Prog.PSt} (h : Prog.Reach s) (bs : Nat) :
    DB.Inv (recover bs s.t.d) ∧
    ∀ e ∈ s.t.acked, ∀ r, s.t.low ≤ r → e.key.ts ≤ r →
      ∃ x, DB.get mayContain (recover bs s.t.d) e.key.user r = some x ∧ e.key.ts ≤ x.key.ts ∧ x.key.user = e.key.user := by
  obtain ⟨hinv, hwf⟩ := Prog.reach_core h
  refine ⟨recover_inv bs hinv hwf, ?_⟩
  intro e he r hr her
  have hk : Kept s.t.d s.t.low e := by
    rcases hinv.durable e he with h1 | h1 | h1
    · exact Or.inl (synced_sub_all h1)
    · exact Or.inr (Or.inl h1)
    · exact Or.inr (Or.inr h1)
  obtain ⟨x, hx, h1, _, h3, _⟩ := recover_visible mayContain hbloom bs hinv hwf e hk r hr her
  exact ⟨x, hx, h1, h3⟩

/-- … and after such a crash the program keeps obeying the rules: recovery and everything after it -/
theorem C14_program_obeys_rules_after_loss {s : Prog.PSt} (h : Prog.Reach s) {d' : D} (hc : CutOf s.t.d d')
    {e : Ev} (he : Prog.Emits { t := { s.t with d := d' }, m := Prog.crashMem s.m } e) :
    ∃ t', accept { s.t with d := d' } e = some t' :=
  Prog.never_rejected (Prog.Reach.step h (Prog.Step.crash hc)) he

/-- the code of `levelManager.writeTable` (translated from /repo on every run): the table's name appears only through a rename
    that follows a complete write, an fsync and a close of the temporary file; when any step fails nothing is renamed
    and the caller gets an error. This is the `publish` step of the trace rules (`C14_publish_after_sync`) in the code. -/
theorem C14_code_publish_by_rename (cf wf sf clf rf : Bool) :
    let r := GenLevel.writeTable cf wf sf clf rf []
    ("rename tmp -> name" ∈ r.2 →
        r.2 = ["create tmp", "write tmp", "fsync tmp", "close tmp", "rename tmp -> name"]) ∧
      (r.1 = true → r.2 = ["create tmp", "write tmp", "fsync tmp", "close tmp", "rename tmp -> name"]) := by
  refine ⟨fun h => (LevelTie.writeTable_rename_after_sync cf wf sf clf rf h).1, ?_⟩
  cases cf <;> cases wf <;> cases sf <;> cases clf <;> cases rf <;> decide

/-- non-vacuity: the success path exists -/
example : GenLevel.writeTable false false false false false [] =
    (true, ["create tmp", "write tmp", "fsync tmp", "close tmp", "rename tmp -> name"]) := by decide

/-- the code of `WAL.Write` (translated from /repo on every run): a commit is acknowledged (nil) only after the one write of its
    batch was followed by an fsync of the wal; if the fsync fails or is not reached, an error is returned — the `ack` rule
    of the trace model (`C14_ack_after_sync`) in the code, for batches of every size -/
theorem C14_code_ack_after_sync {ε β : Type} (enc : ε → List β) (len8 : Nat → List β) (nilFD sf : Bool) (mf : ε → Bool) (wf syf : Bool)
    (entries : List ε) (h : (GenWal.write enc len8 nilFD sf mf wf syf entries []).1 = true) :
    (GenWal.write enc len8 nilFD sf mf wf syf entries []).2 =
        [("w.mu.Lock", []), ("seek to the end", []), ("write", WalTie.batchBytes enc len8 entries), ("fsync", [])] ∧ syf = false := by
  refine ⟨WalTie.write_ack enc len8 nilFD sf mf wf syf entries h, ?_⟩
  rw [WalTie.write_table] at h
  generalize entries.any mf = a at h
  cases nilFD <;> cases sf <;> cases a <;> cases wf <;> cases syf <;> simp_all

/-- the code of `WAL.Read` against the code of `WAL.Write` (both translated from /repo on every run): whatever batches were
    written (`WalTie.batchBytes`: the bytes of the write events of `C04_code_one_write`, one after the other), and whatever proper
    prefix `cut` of one more record a crash left behind them, `Read` returns exactly the entries of the complete records, in
    order, and no error — a torn tail loses only what was never acknowledged and never makes Open fail.  `CodecOK` asks of the
    codec only what C11 proves of it: the length prefix has eight bytes and decodes to itself, `TUnmarshal` inverts `TMarshal` -/
theorem C14_code_read_back {ε β : Type} {enc : ε → List β} {len8 : Nat → List β} {dec8 : List β → Int} {unm : List β → Option ε}
    (hc : WalTie.CodecOK enc len8 dec8 unm) (dflt : ε) (es : List ε) (hs : ∀ e ∈ es, (enc e).length < 2 ^ 63) (cut : List β)
    (ht : WalTie.Torn enc len8 cut) :
    GenWal.read dec8 unm dflt false false false false (WalTie.batchBytes enc len8 es ++ cut) = some es :=
  WalTie.read_back hc dflt es hs cut ht

/-- non-vacuity: a toy codec meets `CodecOK`, and a file of two records and three bytes of a third reads back as the two -/
example : WalTie.CodecOK (fun (e : Nat) => [e, e]) (fun n => [n, 0, 0, 0, 0, 0, 0, 0]) (fun l => (l.headD 0 : Nat))
    (fun l => l.head?) := ⟨fun _ => rfl, fun _ _ _ => rfl, fun _ => rfl⟩
example : GenWal.read (fun l => ((l.headD 0 : Nat) : Int)) (fun (l : List Nat) => l.head?) 0 false false false false
    ([2, 0, 0, 0, 0, 0, 0, 0, 5, 5, 2, 0, 0, 0, 0, 0, 0, 0, 7, 7] ++ [2, 0, 0]) = some [5, 7] := by decide

#print axioms C14_lossy_crash
#print axioms C14_ack_after_sync
#print axioms C14_program_lossy
#print axioms C14_program_obeys_rules_after_loss
#print axioms C14_publish_after_sync
#print axioms C14_remove_after_replacement
#print axioms C14_torn_wal_is_prefix
#print axioms C14_code_publish_by_rename
#print axioms C14_code_ack_after_sync
#print axioms C14_code_read_back
end Props
