import Originium.Generated.LockTable
import Originium.Model.SchedProofs
import Originium.Model.DBTie
/-! # C12 — one DB handle is safe for concurrent use, including its own background work

What a model can carry (the rest of the property is a runtime fact, see DESIGN.md):

1. **Lock discipline.**  `Generated/LockTable.lean` is regenerated from the sources on every run: one
   row per access to a shared location of the engine (the `memtable` pointer and the immutables
   list of the DB, the level lists, a memtable's skiplist / wal / readOnly flag, a wal's file
   descriptor, the oracle's counters and committed list, the hash state inside a table's filter)
   with the locks held at that point along every call path from every entry point (API calls and
   the flusher goroutine).  `C12_lock_discipline`: any two accesses to the same location, at least
   one of them a write, hold a common lock, at least one of them exclusively — except accesses
   made by `Open` before it starts the background goroutine and hands out the handle.
2. Every operation's *result* is the one allowed by C05–C07: those theorems quantify over all
   interleavings at this granularity.
3. Absence of the model-level panics: the flusher always finds the memtable it flushed at the front
   of the immutables (`DB.step .flushRemove` removes the head that `.flushAdd` flushed), compaction
   output is never empty (C09_sorted_nonempty), no stuck state (C15). -/
namespace Props
open LockTable

/-- the two lock sets exclude each other: a common lock, held exclusively by at least one side -/
def excludes (a b : Row) : Bool :=
  a.locks.any fun la => b.locks.any fun lb => la.1 == lb.1 && (la.2 || lb.2)

/-- accesses made while no other goroutine can have the handle: `Open` before `go db.run()` -/
def initPhase (r : Row) : Bool := r.root == "Open"

def conflicting (a b : Row) : Bool := a.loc == b.loc && (a.write || b.write)

def disciplined (rs : List Row) : Bool :=
  rs.all fun a => rs.all fun b => !conflicting a b || initPhase a || initPhase b || excludes a b

/-- the lock discipline holds for the table extracted from the current sources -/
theorem C12_lock_discipline : disciplined rows = true := by decide +kernel

/-- spelled out: two conflicting accesses outside `Open` always exclude each other -/
theorem C12_no_unprotected_conflict (a b : Row) (ha : a ∈ rows) (hb : b ∈ rows)
    (hc : conflicting a b = true) (hia : initPhase a = false) (hib : initPhase b = false) : excludes a b = true := by
  have h := C12_lock_discipline
  unfold disciplined at h
  have h1 := List.all_eq_true.mp h a ha
  have h2 := List.all_eq_true.mp h1 b hb
  simp only [hc, hia, hib, Bool.not_true, Bool.false_or] at h2
  exact h2

/-- the table is not empty and does contain conflicting pairs (the theorem is not vacuous) -/
theorem C12_table_nontrivial :
    (rows.any fun a => rows.any fun b => conflicting a b && !initPhase a && !initPhase b && a.fn != b.fn) = true := by
  decide +kernel

/-- no stuck state and no removal of a wrong or missing immutable are part of C15 / C01; restated here for the property text -/
theorem C12_no_deadlock (cap nc nr : Nat) (s : Sched.St) (hr : Sched.Reach cap nc nr s) (hu : Sched.Unfinished s) :
    ∃ st s', Sched.step s st = some s' :=
  Sched.not_stuck (Sched.inv_reach hr) hu

/-- the Go code itself (`DB.rawset` and the flush case of `DB.run`, translated from /repo on every run): what a concurrent reader
    of the handle can observe of a rotation and of a finished flush.  A reader holds `db.mu` (read) for the whole of
    `DB.search`; the rotation appends the frozen memtable to the immutables and installs the fresh memtable between ONE
    `db.mu.Lock` and its `Unlock` — a reader sees the batch in the active memtable before, in the immutables after, never in
    neither — and the flusher removes the flushed memtable from the immutables, again under `db.mu`, only after
    `flushImmutable` has made its table searchable -/
theorem C12_code_publication_under_dbmu (size threshold : Nat) (h : threshold ≤ size) (closed : Bool) (queued : Nat) :
    GenDB.rawset size threshold [] =
      ["memtable.set batch", "memtable.freeze", "db.mu.Lock", "immutables.PushBack", "memtable = reset", "db.mu.Unlock", "flushC <- imt"] ∧
    (GenDB.runFlush closed queued []).2.2 =
      ["flushImmutable", "checkAndCompact", "db.mu.Lock", "immutables.Remove Front", "db.mu.Unlock"] := by
  refine ⟨by rw [DBTie.rawset_table, if_pos h], by rw [DBTie.runFlush_table]⟩

#print axioms C12_lock_discipline
#print axioms C12_no_unprotected_conflict
#print axioms C12_table_nontrivial
#print axioms C12_no_deadlock
#print axioms C12_code_publication_under_dbmu
end Props
