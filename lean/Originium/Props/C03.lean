import Originium.Model.DiskProgMain
import Originium.Model.LevelTie
import Originium.Model.DBTie
/-! # C03 — acknowledged commits survive a crash at any point, and Open always recovers

Process-crash model: the disk after a kill is the disk after some prefix of the sequence of
file-system operations (every completed call persists).  `acceptAll evs = some s` says that the
sequence `evs` — commits, acknowledgements, rotations, flushes, compactions, Close, and the
operations of earlier recoveries, in the order the hooks observed them — obeys the rules `Guard`
(checked on the real trace by the `crash` suite on every run). -/
namespace Props
open Key VKey Table Levels LSM Disk

/-- the invariants hold after every single event of an accepted trace: at every crash point,
    including points inside a previous recovery (its operations are events like any other) -/
theorem C03_every_crash_point (evs : List Ev) (s : TSt) (h : acceptAll evs = some s) (n : Nat) :
    ∃ s', acceptAll (evs.take n) = some s' ∧ TInv s' := by
  obtain ⟨s', hs'⟩ := acceptAll_prefix evs n h
  exact ⟨s', hs', tinv_acceptAll hs'⟩

/-- Open on the crashed directory yields an ordinary state of the storage model: sorted memtable
    rebuilt from every wal record, complete tables only (temporary files are ignored), generations
    ordered, timestamp counter above every stored version — so the store accepts and retains
    further commits (every theorem about `DB.step` applies from here: C01, C02, C05 …) -/
theorem C03_open_recovers (evs : List Ev) (s : TSt) (h : acceptAll evs = some s) (bs : Nat) :
    DB.Inv (recover bs s.d) ∧
    (∀ (more : List DB.Step) (s'' : DB.St), more.foldlM DB.step (recover bs s.d) = some s'' → DB.Inv s'') := by
  have ht := tinv_acceptAll h
  exact ⟨recover_inv bs ht.inv ht.wf, fun more s'' hm => DB.inv_foldlM (recover_inv bs ht.inv ht.wf) more hm⟩

/-- every entry of every acknowledged commit is visible after recovery — at every read timestamp
    at or above its own and the watermark — unless a newer write of the same key replaced it; and
    whatever is visible instead was written by a begun transaction (some commit batch of the trace) -/
theorem C03_acked_visible (mayContain : TableM → Bytes → Bool)
    (hbloom : ∀ t e, e ∈ t.entries → mayContain t e.key.user = true)
    (evs : List Ev) (s : TSt) (h : acceptAll evs = some s) (bs : Nat)
    (e : E) (he : e ∈ s.acked) (r : Nat) (hr : s.low ≤ r) (her : e.key.ts ≤ r) :
    ∃ x, DB.get mayContain (recover bs s.d) e.key.user r = some x ∧ e.key.ts ≤ x.key.ts ∧ x.key.ts ≤ r ∧
      x.key.user = e.key.user ∧ ∃ b ∈ s.batches, x ∈ b := by
  have ht := tinv_acceptAll h
  have hk : Kept s.d s.low e := by
    rcases ht.inv.durable e he with h1 | h1 | h1
    · exact Or.inl (synced_sub_all h1)
    · exact Or.inr (Or.inl h1)
    · exact Or.inr (Or.inr h1)
  obtain ⟨x, hx, h1, h2, h3, h4⟩ := recover_visible mayContain hbloom bs ht.inv ht.wf e hk r hr her
  exact ⟨x, hx, h1, h2, h3, ht.begun x h4⟩

/-- no value that was never written by a begun transaction is visible: every entry the recovered
    store can return is an entry of some commit batch of the trace -/
theorem C03_nothing_invented (evs : List Ev) (s : TSt) (h : acceptAll evs = some s) (bs : Nat) :
    ∀ x ∈ DB.present (recover bs s.d), ∃ b ∈ s.batches, x ∈ b := by
  intro x hx
  have ht := tinv_acceptAll h
  apply ht.begun
  rw [recover_present, List.mem_append, mem_recover_mem ht.wf.consistent] at hx
  exact surviving_mem.mpr hx

/-- non-vacuity: a commit, its acknowledgement, a rotation, a flush through a temporary file and the removal of the wal is an accepted trace -/
example :
    let e : E := ⟨⟨[107], 1⟩, [1], false, 1⟩
    (acceptAll [.op (.walCreate 1), .commit 1 [e], .op (.walSync 1), .ack [e], .op (.walCreate 2),
      .op (.tmpCreate 7), .op (.tmpWrite 7 [e]), .op (.tmpSync 7), .op (.publish 7), .op (.walRemove 1)]).isSome = true := by
  decide

/-! ## every execution of the modelled engine, not only the recorded traces

`Prog` (`Model/DiskProg.lean`) is the engine's file-system program: the foreground (commits with
rotation, `Close`, `Open` with its wal replay) and the flusher goroutine (flushes, compactions),
interleaved in every possible way, with a crash at every point and recoveries — crashed
recoveries included.  The recorded traces are checked to be traces of this program by the `crash`
suite.  For the program the premise "the trace obeys the rules" is a theorem. -/

/-- whatever the schedule, wherever crashes and recoveries happened: the next file-system event the
    modelled engine emits is accepted by the rule book -/
theorem C03_program_obeys_rules {s : Prog.PSt} (h : Prog.Reach s) {e : Ev} (he : Prog.Emits s e) :
    ∃ t', accept s.t e = some t' := Prog.never_rejected h he

/-- at every reachable point (= at every crash point of every execution): Open yields an ordinary
    state of the storage model and every acknowledged entry is visible unless replaced by a newer
    write of the same key, which itself was written by a begun transaction -/
theorem C03_program_crash_anywhere (mayContain : TableM → Bytes → Bool)
    (hbloom : ∀ t e, e ∈ t.entries → mayContain t e.key.user = true)
    {s : Prog.PSt} (h : Prog.ReachP s) (bs : Nat) :
    DB.Inv (recover bs s.t.d) ∧
    ∀ e ∈ s.t.acked, ∀ r, s.t.low ≤ r → e.key.ts ≤ r →
      ∃ x, DB.get mayContain (recover bs s.t.d) e.key.user r = some x ∧ e.key.ts ≤ x.key.ts ∧ x.key.ts ≤ r ∧
        x.key.user = e.key.user ∧ ∃ b ∈ s.t.batches, x ∈ b := by
  have ht := Prog.reachP_tinv h
  refine ⟨recover_inv bs ht.inv ht.wf, ?_⟩
  intro e he r hr her
  have hk : Kept s.t.d s.t.low e := by
    rcases ht.inv.durable e he with h1 | h1 | h1
    · exact Or.inl (synced_sub_all h1)
    · exact Or.inr (Or.inl h1)
    · exact Or.inr (Or.inr h1)
  obtain ⟨x, hx, h1, h2, h3, h4⟩ := recover_visible mayContain hbloom bs ht.inv ht.wf e hk r hr her
  exact ⟨x, hx, h1, h2, h3, ht.begun x h4⟩

/-- non-vacuity: the program opens an empty directory, commits, rotates, flushes through a
    temporary file, compacts, is killed in the middle of the next flush, recovers (replaying the
    wal that was being flushed), and closes — every step is a step of the program and accepted -/
example :
    let e1 : E := ⟨⟨[107], 1⟩, [1], false, 1⟩
    let e2 : E := ⟨⟨[107], 2⟩, [2], false, 2⟩
    let run (evs : List Prog.PEv) (s : Prog.PSt) : Option Prog.PSt :=
      evs.foldlM (fun s pe => match Prog.pstep s pe with | .ok s' => some s' | .error _ => none) s
    (do
      let s ← run [.order [], .ev (.op (.walCreate 1)), .ev (.commit 1 [e1]), .ev (.op (.walSync 1)),
        .ev (.op (.walCreate 2)), .ev (.ack [e1]),
        .ev (.op (.tmpCreate 7)), .ev (.op (.tmpWrite 7 [e1])), .ev (.op (.tmpSync 7)), .ev (.op (.publish 7)),
        .ev (.op (.walRemove 1)),
        .plan [7] 8, .ev (.raise 0), .ev (.op (.tmpCreate 8)), .ev (.op (.tmpWrite 8 [e1])), .ev (.op (.tmpSync 8)),
        .ev (.op (.publish 8)), .ev (.op (.tableRemove 7)),
        .ev (.commit 2 [e2]), .ev (.op (.walSync 2)), .ev (.op (.walCreate 3)), .ev (.ack [e2]),
        .ev (.op (.tmpCreate 9)), .ev (.op (.tmpWrite 9 [e2]))] Prog.PSt.init
      -- killed here
      let s := { s with m := Prog.crashMem s.m }
      run [.order [2, 3], .ev (.op (.walCreate 4)), .ev (.op (.walAppend 4 [e2])), .ev (.op (.walSync 4)),
        .ev (.op (.walRemove 2)), .ev (.op (.walRemove 3)), .ev (.op (.tmpRemove 9)),
        .ev (.op (.tmpCreate 9)), .ev (.op (.tmpWrite 9 [e2])), .ev (.op (.tmpSync 9)), .ev (.op (.publish 9)),
        .ev (.op (.walRemove 4))] s).isSome = true := by
  decide


/-- the Go code itself (`levelManager.maxLevelIdx`, translated from /repo/level.go on every run): the index
    `maxLevelIdx + 1` that names the next table written into a level — by a flush, an L0 or an LN compaction, also right
    after a recovery, in whatever order the handles of the level are listed — is above the index of every table the level
    holds, so writing the new table never replaces a live one -/
theorem C03_code_fresh_table_name (idxs : List Int) :
    (∀ x ∈ idxs, x < GenLevel.maxLevelIdx idxs + 1) ∧ GenLevel.maxLevelIdx [] + 1 = 0 :=
  ⟨LevelTie.maxLevelIdx_fresh idxs, by rw [LevelTie.maxLevelIdx_empty]; rfl⟩

/-- non-vacuity: handles listed as a recovery lists them (`0-10` before `0-2`) -/
example : GenLevel.maxLevelIdx [0, 1, 10, 11, 2, 9] + 1 = 12 := by decide


/-- the Go code itself (`DB.flushImmutable`, translated on every run): the wal of a flushed memtable is deleted only after
    the table has been added to L0; if adding fails the wal stays -/
theorem C03_code_flush_then_delete (ff df : Bool) :
    GenDB.flushImmutable ff df [] = (if ff then none else if df then none else some ["manager.flushToL0", "wal.Delete"]) :=
  DBTie.flushImmutable_table ff df


/-- the Go code itself (the merge loop of `memtable.recover`, translated on every run): Open takes the leftover wal files in
    sorted order; each one is read, every entry is applied to the memtable and written to the new wal, and only after the
    last of its entries was written the old file is deleted — whenever the process dies inside a recovery, every entry is
    still in a wal file; a wal that does not read panics instead of being skipped -/
theorem C03_code_recovery_merge (sort : List Nat → List Nat) (readWal : Nat → Option (List (Nat × Nat))) (files : List Nat)
    (hne : files ≠ []) (r : Nat × List (String × Nat)) (h : GenDB.recoverWals sort readWal files [] = some r) :
    r.2 = (sort files).flatMap (fun f => DBTie.fileEvents f ((readWal f).getD [])) ∧
    r.1 = (sort files).foldl (fun m f => ((readWal f).getD []).foldl (fun m e => max m e.2) m) 0 ∧
    (∀ f ∈ sort files, (readWal f).isSome) := by
  rw [DBTie.recoverWals_eq, if_neg hne] at h
  have := DBTie.recoverSpec_some readWal (sort files) 0 [] r h
  simpa using this

/-- non-vacuity: two leftover wals, given out of order (the sort of this example: reversal) -/
example : GenDB.recoverWals List.reverse (fun f => if f = 1 then some [(10, 3), (11, 5)] else some [(12, 4)]) [2, 1] [] =
    some (5, [("wal.Open", 1), ("wal.Read", 1), ("skiplist.Set", 10), ("wal.Write", 10), ("skiplist.Set", 11), ("wal.Write", 11),
      ("wal.Delete", 1), ("wal.Open", 2), ("wal.Read", 2), ("skiplist.Set", 12), ("wal.Write", 12), ("wal.Delete", 2)]) := by decide


/-- the Go code itself (`levelManager.compactLN`, translated on every run): the output of a compaction below level 1 is
    written (`writeTable`) before the file of any input is removed, and a failed write panics without removing anything —
    at every instant the entries of the inputs are in a published table -/
theorem C03_code_compaction_order (needLevel : Bool) (lnT : Nat) (ln1 : List Nat) (newIdx : Nat) :
    GenLevel.compactLN needLevel lnT ln1 newIdx false [] =
      some (ln1 ++ [lnT],
        (if needLevel then [("new level", 0)] else []) ++ (ln1.map fun e => ("fetch LN+1", e)) ++
        [("fetch LN", lnT), ("MergeVersions", ln1.length + 1), ("discardStaleEntries", 0), ("filter.Build", 0), ("table.Build", 0),
         ("name := maxLevelIdx(LN+1)+1", newIdx), ("PushBack LN+1", newIdx), ("Remove handle LN", lnT)] ++
        (ln1.map fun e => ("Remove handle LN+1", e)) ++ [("writeTable LN+1", newIdx), ("os.Remove LN", lnT)] ++
        (ln1.map fun e => ("os.Remove LN+1", e))) ∧
    GenLevel.compactLN needLevel lnT ln1 newIdx true [] = none := by
  constructor
  · rw [LevelTie.compactLN_table]; rfl
  · rw [LevelTie.compactLN_table]; rfl


/-- … and the same for `levelManager.compactL0` (translated on every run): level 1 is read and merged before level 0, the
    output is named while the inputs are listed, it is written before any input file is removed, a failed write removes nothing -/
theorem C03_code_compaction_order_L0 (needLevel : Bool) (l0 l1 : List Nat) (newIdx : Nat) :
    GenLevel.compactL0 needLevel l0 l1 newIdx false [] =
      some (l1 ++ l0,
        (if needLevel then [("new level", 0)] else []) ++ (l1.map fun e => ("fetch L1", e)) ++ (l0.map fun e => ("fetch L0", e)) ++
        [("MergeVersions", l1.length + l0.length), ("discardStaleEntries", 0), ("filter.Build", 0), ("table.Build", 0),
         ("name := maxLevelIdx(L1)+1", newIdx), ("PushBack L1", newIdx)] ++
        (l0.map fun e => ("Remove handle L0", e)) ++ (l1.map fun e => ("Remove handle L1", e)) ++ [("writeTable L1", newIdx)] ++
        (l0.map fun e => ("os.Remove L0", e)) ++ (l1.map fun e => ("os.Remove L1", e))) ∧
    GenLevel.compactL0 needLevel l0 l1 newIdx true [] = none := by
  constructor
  · rw [LevelTie.compactL0_table]; rfl
  · rw [LevelTie.compactL0_table]; rfl

#print axioms C03_every_crash_point
#print axioms C03_open_recovers
#print axioms C03_acked_visible
#print axioms C03_nothing_invented
#print axioms C03_program_obeys_rules
#print axioms C03_program_crash_anywhere
/-- the code of `levelManager.flushToL0` and `levelManager.writeTable` (translated on every run): a flush builds one table
    from all the entries of the memtable, names it with the fresh index, registers it as the newest table of L0 and
    publishes it by a rename that follows the complete write and the fsync of a temporary file -/
theorem C03_code_flush_publishes (noLevel : Bool) (newIdx : Nat) (wf : Bool) (cf w sf clf rf : Bool) :
    GenLevel.flushToL0 noLevel newIdx wf [] =
      (!wf, [("lm.mu.Lock", 0), ("filter.Build(all entries)", 0), ("table.Build(all entries)", 0)] ++
        (if noLevel then [("new level", 0)] else []) ++
        [("name := maxLevelIdx(L0)+1", newIdx), ("PushBack L0", newIdx), ("writeTable L0", newIdx)]) ∧
    ((GenLevel.writeTable cf w sf clf rf []).1 = true →
      (GenLevel.writeTable cf w sf clf rf []).2 = ["create tmp", "write tmp", "fsync tmp", "close tmp", "rename tmp -> name"]) := by
  refine ⟨LevelTie.flushToL0_table noLevel newIdx wf, ?_⟩
  cases cf <;> cases w <;> cases sf <;> cases clf <;> cases rf <;> decide

#print axioms C03_code_fresh_table_name
#print axioms C03_code_flush_then_delete
#print axioms C03_code_recovery_merge
#print axioms C03_code_compaction_order
#print axioms C03_code_compaction_order_L0
#print axioms C03_code_flush_publishes
end Props
