import Originium.Model.DiskRecover
/-! # C03 — acknowledged commits survive a crash at any point, and Open always recovers

Process-crash model: the disk after a kill is the disk after some prefix of the sequence of
file-system operations (every completed call persists).  `acceptAll evs = some s` says that the
sequence `evs` — commits, acknowledgements, rotations, flushes, compactions, Close, and the
operations of earlier recoveries, in the order the hooks observed them — obeys the rules `Guard`
(checked on the real trace by the `crash` suite on every run). -/
namespace Props
open Key VKey Table Levels LSM Disk

/-- the invariants hold after every single event of an accepted trace: at every crash point,
    including points inside a previous recovery (its operations are events like any other) -/
theorem C03_every_crash_point (evs : List Ev) (s : TSt) (h : acceptAll evs = some s) (n : Nat) :
    ∃ s', acceptAll (evs.take n) = some s' ∧ TInv s' := by
  obtain ⟨s', hs'⟩ := acceptAll_prefix evs n h
  exact ⟨s', hs', tinv_acceptAll hs'⟩

/-- Open on the crashed directory yields an ordinary state of the storage model: sorted memtable
    rebuilt from every wal record, complete tables only (temporary files are ignored), generations
    ordered, timestamp counter above every stored version — so the store accepts and retains
    further commits (every theorem about `DB.step` applies from here: C01, C02, C05 …) -/
theorem C03_open_recovers (evs : List Ev) (s : TSt) (h : acceptAll evs = some s) (bs : Nat) :
    DB.Inv (recover bs s.d) ∧
    (∀ (more : List DB.Step) (s'' : DB.St), more.foldlM DB.step (recover bs s.d) = some s'' → DB.Inv s'') := by
  have ht := tinv_acceptAll h
  exact ⟨recover_inv bs ht.inv ht.wf, fun more s'' hm => DB.inv_foldlM (recover_inv bs ht.inv ht.wf) more hm⟩

/-- every entry of every acknowledged commit is visible after recovery — at every read timestamp
    at or above its own and the watermark — unless a newer write of the same key replaced it; and
    whatever is visible instead was written by a begun transaction (some commit batch of the trace) -/
theorem C03_acked_visible (mayContain : TableM → Bytes → Bool)
    (hbloom : ∀ t e, e ∈ t.entries → mayContain t e.key.user = true)
    (evs : List Ev) (s : TSt) (h : acceptAll evs = some s) (bs : Nat)
    (e : E) (he : e ∈ s.acked) (r : Nat) (hr : s.low ≤ r) (her : e.key.ts ≤ r) :
    ∃ x, DB.get mayContain (recover bs s.d) e.key.user r = some x ∧ e.key.ts ≤ x.key.ts ∧ x.key.ts ≤ r ∧
      x.key.user = e.key.user ∧ ∃ b ∈ s.batches, x ∈ b := by
  have ht := tinv_acceptAll h
  have hk : Kept s.d s.low e := by
    rcases ht.inv.durable e he with h1 | h1 | h1
    · exact Or.inl (synced_sub_all h1)
    · exact Or.inr (Or.inl h1)
    · exact Or.inr (Or.inr h1)
  obtain ⟨x, hx, h1, h2, h3, h4⟩ := recover_visible mayContain hbloom bs ht.inv ht.wf e hk r hr her
  exact ⟨x, hx, h1, h2, h3, ht.begun x h4⟩

/-- no value that was never written by a begun transaction is visible: every entry the recovered
    store can return is an entry of some commit batch of the trace -/
theorem C03_nothing_invented (evs : List Ev) (s : TSt) (h : acceptAll evs = some s) (bs : Nat) :
    ∀ x ∈ DB.present (recover bs s.d), ∃ b ∈ s.batches, x ∈ b := by
  intro x hx
  have ht := tinv_acceptAll h
  apply ht.begun
  rw [recover_present, List.mem_append, mem_recover_mem ht.wf.consistent] at hx
  exact surviving_mem.mpr hx

/-- non-vacuity: a commit, its acknowledgement, a rotation, a flush through a temporary file and the removal of the wal is an accepted trace -/
example :
    let e : E := ⟨⟨[107], 1⟩, [1], false, 1⟩
    (acceptAll [.op (.walCreate 1), .commit 1 [e], .op (.walSync 1), .ack [e], .op (.walCreate 2),
      .op (.tmpCreate 7), .op (.tmpWrite 7 [e]), .op (.tmpSync 7), .op (.publish 7), .op (.walRemove 1)]).isSome = true := by
  decide

#print axioms C03_every_crash_point
#print axioms C03_open_recovers
#print axioms C03_acked_visible
#print axioms C03_nothing_invented
end Props
