import Originium.Model.Watermark
import Originium.Model.WMTie
/-! # C13 — the watermark never passes unfinished work and always catches up

`run ms` is the state of the `process` goroutine after the FIFO message sequence `ms`
(every interleaving of Begin/Done/WaitForMark callers is one such sequence). -/
namespace Props
open WM2 Watermark

/-- DoneUntil never decreases, whatever arrives next -/
theorem C13_monotone (ms : List Msg) (m : Msg) :
    (Watermark.run ms).core.doneUntil ≤ (Watermark.run (ms ++ [m])).core.doneUntil := by
  have : Watermark.run (ms ++ [m]) = Watermark.step (Watermark.run ms) m := by
    simp [Watermark.run, List.foldl_append]
  rw [this]
  exact Watermark.step_mono _ m

/-- DoneUntil never advances to or beyond an index that has been begun more often than finished:
    a mark that moves it from below `t` to `t` or beyond arrives only when, counting the whole
    history, `t` has not been begun more often than finished ("unless it already stood there":
    the hypothesis `doneUntil < t` before the mark). -/
theorem C13_never_passes (ms : List Mark) (m : Mark) (t : Nat)
    (hlo : (WM2.run ms).doneUntil < t) (hhi : t ≤ (WM2.run (ms ++ [m])).doneUntil) :
    net t (ms ++ [m]) ≤ 0 :=
  never_passes ms m t hlo hhi

/-- … the same through the full loop with waiters mixed in -/
theorem C13_never_passes_msgs (ms : List Msg) (m : Mark) (t : Nat)
    (hlo : (Watermark.run ms).core.doneUntil < t)
    (hhi : t ≤ (Watermark.run (ms ++ [.mark m])).core.doneUntil) :
    net t (marksOf ms ++ [m]) ≤ 0 := by
  rw [run_core] at hlo
  rw [run_core, marksOf_append] at hhi
  exact never_passes (marksOf ms) m t hlo hhi

/-- once every begun index up to `t` has been finished (matched semantics: a Done cancels an
    outstanding Begin, a Done without Begin is free) and `t` occurred, DoneUntil is at least `t`
    as soon as the last mark is processed — no further call is needed -/
theorem C13_catches_up (ms : List Msg) (t : Nat) (hseen : ∃ m ∈ marksOf ms, m.ts = t)
    (hdone : ∀ s, s ≤ t → outstanding s (marksOf ms) = 0) :
    t ≤ (Watermark.run ms).core.doneUntil := by
  rw [run_core]
  exact catches_up (marksOf ms) t hseen hdone

/-- `WaitForMark(t)`: a waiter's channel is closed only in a state with DoneUntil ≥ t; a waiter that
    is still blocked has DoneUntil < t (so it is released by the very mark that reaches t); a
    registered waiter is never lost; the fast path returns nil only if DoneUntil ≥ t -/
theorem C13_wait (ms : List Msg) :
    (∀ w ∈ (Watermark.run ms).released, w.1 ≤ (Watermark.run ms).core.doneUntil) ∧
    (∀ w ∈ (Watermark.run ms).waiters, (Watermark.run ms).core.doneUntil < w.1) ∧
    (∀ t id, Msg.wait t id ∈ ms → (t, id) ∈ (Watermark.run ms).waiters ∨ (t, id) ∈ (Watermark.run ms).released) ∧
    (∀ t, fastPath (Watermark.run ms) t = true ↔ t ≤ (Watermark.run ms).core.doneUntil) := by
  have h := winv_run ms
  exact ⟨h.released_ok, h.blocked_ok, h.complete, fun t => by simp [fastPath]⟩

/-- non-vacuity / the recovery idiom: `Done 7` without a Begin raises the mark to 7; out-of-order
    completion `Begin 3, Begin 5, Done 5` keeps it below 3 until `Done 3` arrives -/
example : (WM2.run [.done 7]).doneUntil = 7 ∧
    (WM2.run [.begin 3, .begin 5, .done 5]).doneUntil = 0 ∧
    (WM2.run [.begin 3, .begin 5, .done 5, .done 3]).doneUntil = 5 := by decide


/-! ### The Go code itself

`GenWM.handle` is the body of the `case m := <-w.markC` branch of `WaterMark.process`, translated from `/repo` by
`extract/gotrans.go` on every run; `WMTie.gstep` feeds it one message; `WMTie.rel_run` proves that its state and the
model's state stay related for every message sequence. -/

/-- for every sequence of messages, the translated handler computes the model: its `DoneUntil` is the model's, its heap
    is the model's, the channels it has closed are exactly the waiters the model has released and the waiters parked in
    its map are exactly the model's blocked waiters -/
theorem C13_code_refines (ms : List Msg) :
    let g := ms.foldl WMTie.gstep WMTie.ginit
    g.du = (Watermark.run ms).core.doneUntil ∧ g.heap = (Watermark.run ms).core.heap ∧
    (∀ t id, (t, id) ∈ (Watermark.run ms).waiters ↔ ∃ cs, (t, cs) ∈ g.waiters ∧ id ∈ cs) ∧
    (∀ id, id ∈ g.ev ↔ ∃ t, (t, id) ∈ (Watermark.run ms).released) := by
  have h := WMTie.rel_run ms
  exact ⟨h.du, h.heap, h.wait, h.rel⟩

/-- the properties of the model, read off the translated code: DoneUntil never decreases; it moves from below `t` to `t`
    or beyond only when `t` has not been begun more often than finished; it has caught up once everything up to `t` is
    finished -/
theorem C13_code_doneUntil (ms : List Msg) (m : Msg) (t : Nat) :
    (ms.foldl WMTie.gstep WMTie.ginit).du ≤ ((ms ++ [m]).foldl WMTie.gstep WMTie.ginit).du ∧
    (∀ mk, m = .mark mk → (ms.foldl WMTie.gstep WMTie.ginit).du < t → t ≤ ((ms ++ [m]).foldl WMTie.gstep WMTie.ginit).du →
      net t (marksOf ms ++ [mk]) ≤ 0) ∧
    ((∃ mk ∈ marksOf ms, mk.ts = t) → (∀ s, s ≤ t → outstanding s (marksOf ms) = 0) → t ≤ (ms.foldl WMTie.gstep WMTie.ginit).du) := by
  rw [(WMTie.rel_run ms).du, (WMTie.rel_run (ms ++ [m])).du]
  refine ⟨C13_monotone ms m, ?_, C13_catches_up ms t⟩
  intro mk hm hlo hhi
  subst hm
  exact C13_never_passes_msgs ms mk t hlo hhi

/-- waiters in the translated code: a channel is closed only when DoneUntil has reached the waiter's index; a waiter
    still in the map has an index above DoneUntil; a registered waiter is either parked in the map or closed, never lost -/
theorem C13_code_wait (ms : List Msg) :
    let g := ms.foldl WMTie.gstep WMTie.ginit
    (∀ t cs, (t, cs) ∈ g.waiters → ∀ id ∈ cs, g.du < t) ∧
    (∀ t id, Msg.wait t id ∈ ms → (∃ cs, (t, cs) ∈ g.waiters ∧ id ∈ cs) ∨ (id ∈ g.ev ∧ t ≤ g.du)) := by
  have h := WMTie.rel_run ms
  have w := winv_run ms
  refine ⟨?_, ?_⟩
  · intro t cs hcs id hid
    have := w.blocked_ok (t, id) ((h.wait t id).mpr ⟨cs, hcs, hid⟩)
    rw [h.du]; exact this
  · intro t id hm
    rcases w.complete t id hm with h1 | h1
    · exact Or.inl ((h.wait t id).mp h1)
    · refine Or.inr ⟨(h.rel id).mpr ⟨t, h1⟩, ?_⟩
      rw [h.du]; exact w.released_ok (t, id) h1

/-- non-vacuity: the translated handler run on concrete messages — `Begin 3, Begin 5, wait 4 (channel 9), Done 5, Done 3`
    ends with DoneUntil 5, an empty heap, and channel 9 closed -/
example : (let g := [Msg.mark (.begin 3), .mark (.begin 5), .wait 4 9, .mark (.done 5), .mark (.done 3)].foldl WMTie.gstep WMTie.ginit
    (g.du, g.heap, g.ev)) = (5, [], [9]) := by decide

#print axioms C13_monotone
#print axioms C13_never_passes
#print axioms C13_never_passes_msgs
#print axioms C13_catches_up
#print axioms C13_wait
#print axioms C13_code_refines
#print axioms C13_code_doneUntil
#print axioms C13_code_wait
end Props
