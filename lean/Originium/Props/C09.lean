import Originium.Model.LSM
import Originium.Model.Kway
import Originium.Model.LevelTie
import Originium.Model.KwayTie
/-! # C09 — compaction never changes the answer of any permitted read

Compacting any set of tables, with any version-discard watermark, yields tables that answer every
lookup of a key at a read timestamp at or above the watermark exactly as the tables did before.
Only versions shadowed by a newer version at or below the watermark may disappear. -/
namespace Props
open Key VKey Table Levels Compact LSM

theorem consistent_sub {xs ys : List E} (h : ∀ x ∈ xs, x ∈ ys) (hc : Consistent ys) : Consistent xs :=
  fun a ha b hb hab => hc a (h a ha) b (h b hb) hab

/-- Replacing ANY chosen set `ins` of tables (at any levels) by one table built, with any block
    size, from `discardStale low (mergeVersions ins)` leaves the result of the implemented lookup
    unchanged for every key and every read timestamp `r ≥ low` — tombstones are versions like any
    other.  The choice of `ins` (overlap computation, level thresholds) is irrelevant. -/
theorem C09_preserves (mayContain : TableM → Bytes → Bool)
    (hbloom : ∀ t e, e ∈ t.entries → mayContain t e.key.user = true)
    (rest ins : List TableM) (hb : ∀ t ∈ rest ++ ins, Built t)
    (hc : Consistent ((rest ++ ins).map (·.entries)).flatten)
    (low bs : Nat) (k : Bytes) (r : Nat) (hr : low ≤ r) :
    search mayContain (rest ++ [buildTable bs (compactOutput low (ins.map (·.entries)))]) k r
      = search mayContain (rest ++ ins) k r := by
  -- entries before / after
  have hflat : ((rest ++ ins).map (·.entries)).flatten
      = (rest.map (·.entries)).flatten ++ (ins.map (·.entries)).flatten := by simp
  have hins_c : Consistent (ins.map (·.entries)).flatten :=
    consistent_sub (fun x hx => by rw [hflat]; exact List.mem_append.mpr (Or.inr hx)) hc
  have hallowed := compactOutput_allowed low (ins.map (·.entries)) hins_c
  have hflat' : ((rest ++ [buildTable bs (compactOutput low (ins.map (·.entries)))]).map (·.entries)).flatten
      = (rest.map (·.entries)).flatten ++ compactOutput low (ins.map (·.entries)) := by
    simp [buildTable_entries]
  have hb' : ∀ t ∈ rest ++ [buildTable bs (compactOutput low (ins.map (·.entries)))], Built t := by
    intro t ht
    rcases List.mem_append.mp ht with h | h
    · exact hb t (List.mem_append.mpr (Or.inl h))
    · simp only [List.mem_singleton] at h
      exact ⟨bs, _, compactOutput_sorted low _, h⟩
  have hc' : Consistent ((rest ++ [buildTable bs (compactOutput low (ins.map (·.entries)))]).map (·.entries)).flatten := by
    apply consistent_sub _ hc
    intro x hx
    rw [hflat'] at hx; rw [hflat]
    rcases List.mem_append.mp hx with h | h
    · exact List.mem_append.mpr (Or.inl h)
    · exact List.mem_append.mpr (Or.inr (hallowed.sub x h))
  -- the old answer still satisfies the specification on the new contents …
  have hold := search_newest mayContain hbloom (rest ++ ins) hb k r
  rw [hflat] at hold
  have hpres := compaction_preserves hallowed k r hr _ hold
  -- … and the new lookup returns the unique entry that does
  have hnew := search_newest mayContain hbloom _ hb' k r
  rw [hflat'] at hnew
  rw [hflat'] at hc'
  exact isNewest_unique hc' hnew hpres

/-- only shadowed versions disappear: every input entry missing from the output has a kept newer
    version of the same key at or below the watermark -/
theorem C09_only_shadowed (low : Nat) (ins : List (List E)) (hc : Consistent ins.flatten) (e : E)
    (he : e ∈ ins.flatten) (hne : e ∉ compactOutput low ins) :
    ∃ e' ∈ compactOutput low ins, e'.key.user = e.key.user ∧ e.key.ts < e'.key.ts ∧ e'.key.ts ≤ low :=
  (compactOutput_allowed low ins hc).shadowed e he hne

/-- nothing is invented, duplicated into a wrong value, or resurrected: every output entry is an input entry -/
theorem C09_no_invention (low : Nat) (ins : List (List E)) (e : E) (he : e ∈ compactOutput low ins) :
    e ∈ ins.flatten := by
  unfold compactOutput at he
  exact mergeVersions_sub ins e ((discardStale_allowed low _).sub e he)

/-- the output is strictly sorted and, for non-empty input, non-empty (table and filter
    construction never see an empty list) -/
theorem C09_sorted_nonempty (low : Nat) (ins : List (List E)) (hc : Consistent ins.flatten) :
    SortedE vlt (compactOutput low ins) ∧ (ins.flatten ≠ [] → compactOutput low ins ≠ []) :=
  ⟨compactOutput_sorted low ins, compactOutput_ne_nil low ins hc⟩

/-- with watermark 0 nothing is discarded at all (as `discardStaleEntries` does) -/
theorem C09_low_zero (ins : List (List E)) : compactOutput 0 ins = mergeVersions ins := by
  simp [compactOutput, discardStale]

/-- non-vacuity: `k@1` in an old table, tombstone `k@2` in a newer one, watermark 2: the put is
    dropped and the tombstone stays (so the key stays deleted) -/
example :
    let old : List E := [⟨⟨[107], 1⟩, [1], false, 1⟩]
    let new : List E := [⟨⟨[107], 2⟩, [], true, 2⟩]
    Consistent [old, new].flatten ∧
    (compactOutput 2 [old, new]).map (fun e => (e.key.ts, e.tomb)) = [(2, true)] := by
  unfold Consistent; decide


/-- `mergeVersions` above is a specification (sorted, one entry per versioned key, the later list
    wins).  The code (`pkg/kway/merge.go`) computes it with a heap holding one element per input list
    and a map `latest`: whatever minimum (with respect to `Heap.Less`) each `heap.Pop` returns, for
    strictly sorted inputs the sorted values of `latest` are exactly that specification — and the
    loop always runs to completion. -/
theorem C09_kway_heap_merge (lists : List (List E)) (hs : ∀ l ∈ lists, SortedE vlt l) :
    (∃ out, Kway.Run (Kway.initFrom 0 lists) out) ∧
    ∀ out, Kway.Run (Kway.initFrom 0 lists) out →
      ∀ merged, SortedE vlt merged → (∀ x, x ∈ merged ↔ ∃ li, Kway.LastT out (x, li)) →
        merged = mergeVersions lists :=
  ⟨Kway.run_exists _ _ rfl (Kway.good_initFrom 0 lists hs).1,
   fun _ hr merged hsm hmem => Kway.run_eq_spec lists hs hr merged hsm hmem⟩


/-! ### The Go code itself: `levelManager.discardStaleEntries`, translated from `/repo/level.go` on every run -/

/-- the translated `discardStaleEntries`, applied to the merge of any inputs, is an accepted compaction output: a subset
    of the inputs in which every dropped entry is shadowed by a kept newer version of the same user key at or below
    the watermark — whatever `slices.SortFunc` does beyond keeping the elements -/
theorem C09_code_discard_allowed (sort : List E → List E) (hsort : ∀ l x, x ∈ sort l ↔ x ∈ l) (low : Nat)
    (ins : List (List E)) (hc : Consistent ins.flatten) :
    Allowed low ins.flatten (GenLevel.discardStale sort low (mergeVersions ins)) := by
  have hcm : Consistent (mergeVersions ins) := consistent_sub (mergeVersions_sub ins) hc
  have hd := LevelTie.discardStale_allowed sort hsort low (mergeVersions ins) hcm
  refine ⟨fun e he => mergeVersions_sub ins e (hd.sub e he), ?_⟩
  intro e he hne
  exact hd.shadowed e (mergeVersions_complete ins hc e he) hne

/-- … hence every permitted read (`r ≥ low`) of the brute-force specification is answered by the translated output as it
    was by the inputs, next to any other tables -/
theorem C09_code_preserves (sort : List E → List E) (hsort : ∀ l x, x ∈ sort l ↔ x ∈ l) (low : Nat)
    (ins : List (List E)) (hc : Consistent ins.flatten) (rest : List E) (k : Bytes) (r : Nat) (hr : low ≤ r) (res : Option E)
    (hn : IsNewest (rest ++ ins.flatten) k r res) :
    IsNewest (rest ++ GenLevel.discardStale sort low (mergeVersions ins)) k r res :=
  compaction_preserves (C09_code_discard_allowed sort hsort low ins hc) k r hr res hn

/-- non-vacuity: the translated function on a concrete merge (identity as the sort): with watermark 2 the version 1 of
    `a` goes, version 2 (the newest at or below the watermark) and version 3 stay -/
example : (GenLevel.discardStale id 2
    [⟨⟨[97], 3⟩, [1], false, 3⟩, ⟨⟨[97], 2⟩, [], true, 2⟩, ⟨⟨[97], 1⟩, [5], false, 1⟩]).map (fun e => e.key.ts) = [3, 2] := by decide


/-- the Go code itself (`levelManager.compactLN`, translated on every run): the tables of level N+1 (older data) are read and
    merged first, the table of level N last (later list wins in `MergeVersions`); the output is named `maxLevelIdx + 1` while
    all inputs are still in the index (the name is fresh, `C03_code_fresh_table_name`), and the inputs leave the index and
    the directory only around / after the write of the output -/
theorem C09_code_compaction_order (needLevel : Bool) (lnT : Nat) (ln1 : List Nat) (newIdx : Nat) :
    GenLevel.compactLN needLevel lnT ln1 newIdx false [] =
      some (ln1 ++ [lnT],
        (if needLevel then [("new level", 0)] else []) ++ (ln1.map fun e => ("fetch LN+1", e)) ++
        [("fetch LN", lnT), ("MergeVersions", ln1.length + 1), ("discardStaleEntries", 0), ("filter.Build", 0), ("table.Build", 0),
         ("name := maxLevelIdx(LN+1)+1", newIdx), ("PushBack LN+1", newIdx), ("Remove handle LN", lnT)] ++
        (ln1.map fun e => ("Remove handle LN+1", e)) ++ [("writeTable LN+1", newIdx), ("os.Remove LN", lnT)] ++
        (ln1.map fun e => ("os.Remove LN+1", e))) ∧
    GenLevel.compactLN needLevel lnT ln1 newIdx true [] = none := by
  constructor
  · rw [LevelTie.compactLN_table]; rfl
  · rw [LevelTie.compactLN_table]; rfl


/-- … and the same for `levelManager.compactL0` (translated on every run): level 1 is read and merged before level 0, the
    output is named while the inputs are listed, it is written before any input file is removed, a failed write removes nothing -/
theorem C09_code_compaction_order_L0 (needLevel : Bool) (l0 l1 : List Nat) (newIdx : Nat) :
    GenLevel.compactL0 needLevel l0 l1 newIdx false [] =
      some (l1 ++ l0,
        (if needLevel then [("new level", 0)] else []) ++ (l1.map fun e => ("fetch L1", e)) ++ (l0.map fun e => ("fetch L0", e)) ++
        [("MergeVersions", l1.length + l0.length), ("discardStaleEntries", 0), ("filter.Build", 0), ("table.Build", 0),
         ("name := maxLevelIdx(L1)+1", newIdx), ("PushBack L1", newIdx)] ++
        (l0.map fun e => ("Remove handle L0", e)) ++ (l1.map fun e => ("Remove handle L1", e)) ++ [("writeTable L1", newIdx)] ++
        (l0.map fun e => ("os.Remove L0", e)) ++ (l1.map fun e => ("os.Remove L1", e))) ∧
    GenLevel.compactL0 needLevel l0 l1 newIdx true [] = none := by
  constructor
  · rw [LevelTie.compactL0_table]; rfl
  · rw [LevelTie.compactL0_table]; rfl

/-! ### The Go code itself: `kway.merge`, translated from `/repo/pkg/kway/merge.go` on every run -/

/-- the translated `kway.MergeVersions` (`merge` with `keepTombstone = true`) is the specification `mergeVersions`: for
    strictly sorted input lists (tables and data blocks are), with container/heap taken as a sorted list and
    `slices.SortFunc` as any function that sorts lists of distinct keys -/
theorem C09_code_merge_versions (ksort : List E → List E)
    (hk : ∀ l : List E, (l.map (·.key)).Nodup → SortedE vlt (ksort l) ∧ ∀ x, x ∈ ksort l ↔ x ∈ l)
    (dflt : E) (ins : List (List E)) (hs : ∀ l ∈ ins, SortedE vlt l) :
    GenKway.merge (fun (e : E) => e.key) (fun e => e.tomb) Kway.less ksort dflt true ins = mergeVersions ins :=
  KwayTie.merge_eq ksort hk dflt ins hs

/-- the other mode of the same translated function (`kway.Merge`, `keepTombstone = false`, used by scans and not by compaction):
    the merged versions without the tombstones — compaction must not use it (it would resurrect shadowed values), and
    `C09_code_compaction_order` shows that it calls `MergeVersions` -/
theorem C09_code_merge_without_tombstones (ksort : List E → List E)
    (hk : ∀ l : List E, (l.map (·.key)).Nodup → SortedE vlt (ksort l) ∧ ∀ x, x ∈ ksort l ↔ x ∈ l)
    (dflt : E) (ins : List (List E)) (hs : ∀ l ∈ ins, SortedE vlt l) :
    GenKway.merge (fun (e : E) => e.key) (fun e => e.tomb) Kway.less ksort dflt false ins = LSM.merge ins :=
  KwayTie.merge_drop_eq ksort hk dflt ins hs

/-- the two translated steps of a compaction in the order `compactLN` / `compactL0` run them (`C09_code_compaction_order`):
    the translated `discardStaleEntries` applied to the translated `MergeVersions` of the input blocks answers every
    permitted read as the inputs did, next to any other tables -/
theorem C09_code_merge_then_discard (ksort sort : List E → List E)
    (hk : ∀ l : List E, (l.map (·.key)).Nodup → SortedE vlt (ksort l) ∧ ∀ x, x ∈ ksort l ↔ x ∈ l)
    (hsort : ∀ l x, x ∈ sort l ↔ x ∈ l) (dflt : E) (low : Nat)
    (ins : List (List E)) (hs : ∀ l ∈ ins, SortedE vlt l) (hc : Consistent ins.flatten) (rest : List E) (k : Bytes) (r : Nat)
    (hr : low ≤ r) (res : Option E) (hn : IsNewest (rest ++ ins.flatten) k r res) :
    IsNewest (rest ++ GenLevel.discardStale sort low
      (GenKway.merge (fun (e : E) => e.key) (fun e => e.tomb) Kway.less ksort dflt true ins)) k r res := by
  rw [KwayTie.merge_eq ksort hk dflt ins hs]
  exact C09_code_preserves sort hsort low ins hc rest k r hr res hn

/-- non-vacuity: the hypotheses on the sort functions are met by insertion sort / the identity, and the translated merge
    computes on a concrete input (the later list wins for `a@1`) -/
example : ∀ l : List E, (l.map (·.key)).Nodup → SortedE vlt (KwayTie.isort l) ∧ ∀ x, x ∈ KwayTie.isort l ↔ x ∈ l :=
  KwayTie.isort_spec
example :
    let a1 : E := ⟨⟨[97], 1⟩, [1], false, 1⟩
    let a1' : E := ⟨⟨[97], 1⟩, [9], false, 1⟩
    let b2 : E := ⟨⟨[98], 2⟩, [2], false, 2⟩
    GenKway.merge (fun (e : E) => e.key) (fun e => e.tomb) Kway.less KwayTie.isort a1 true [[a1, b2], [a1']] = [a1', b2] := by
  decide

/-- the code that chooses the inputs of a compaction (`levelManager.overlapLN`, translated on every run; `overlapL0` calls it
    with the range of the oldest L0 table): the chosen tables are a sublist of the level's tables, in the level's order —
    one of the choices of inputs `C09_preserves` and `C09_code_merge_then_discard` quantify over -/
theorem C09_code_inputs_are_a_choice {τ : Type} (startsBeforeEnd endsAfterStart : τ → Bool) (tables : List τ) :
    GenLevel.overlapLN startsBeforeEnd endsAfterStart tables = tables.filter (fun t => startsBeforeEnd t && endsAfterStart t) ∧
    (GenLevel.overlapLN startsBeforeEnd endsAfterStart tables).Sublist tables :=
  ⟨LevelTie.overlapLN_eq _ _ _, LevelTie.overlapLN_sublist _ _ _⟩

#print axioms C09_preserves
#print axioms C09_only_shadowed
#print axioms C09_no_invention
#print axioms C09_sorted_nonempty
#print axioms C09_low_zero
#print axioms C09_kway_heap_merge
#print axioms C09_code_discard_allowed
#print axioms C09_code_preserves
#print axioms C09_code_compaction_order
#print axioms C09_code_compaction_order_L0
#print axioms C09_code_merge_versions
#print axioms C09_code_inputs_are_a_choice
#print axioms C09_code_merge_without_tombstones
#print axioms C09_code_merge_then_discard
end Props
