import Originium.Model.LSM
import Originium.Model.LSMTie
import Originium.Model.TableTie
import Originium.Model.TypesTie
/-! # C10 — table lookup finds the newest version at or below the read timestamp

For any set of versioned entries stored in any number of tables with any data-block size, looking
up a key at a timestamp returns the entry of that key with the largest version not above the
timestamp that any table holds, and not-found when there is none. -/
namespace Props
open Key VKey Table Levels LSM

/-- one table, every block size: index search + block search = first entry ≥ the target -/
theorem C10_table (bs : Nat) (es : List E) (hs : SortedE vlt es) (k : Bytes) (r : Nat) :
    tableLookup vlt (buildTable bs es).blocks ⟨k, r⟩ = es.find? (geKey vlt ⟨k, r⟩) :=
  build_lookup_eq vlt esize vlt_trans' bs hs ⟨k, r⟩

/-- all tables of all levels: the lookup returns the newest version `≤ r` of `k` that any table
    holds and `none` exactly when no table holds one — for any number of tables built with any
    block sizes, any bloom filter without false negatives (false positives allowed), any query.
    Targets before the first entry, between two blocks and after the last entry are ordinary cases. -/
theorem C10_lookup_newest (mayContain : TableM → Bytes → Bool)
    (hbloom : ∀ t e, e ∈ t.entries → mayContain t e.key.user = true)
    (tables : List TableM) (hb : ∀ t ∈ tables, Built t) (k : Bytes) (r : Nat) :
    IsNewest (tables.map (·.entries)).flatten k r (search mayContain tables k r) :=
  search_newest mayContain hbloom tables hb k r

/-- the answer is determined by the stored entries alone: any other result satisfying the
    specification is the same entry (so table order, level layout and filter are irrelevant) -/
theorem C10_lookup_unique (mayContain : TableM → Bytes → Bool)
    (hbloom : ∀ t e, e ∈ t.entries → mayContain t e.key.user = true)
    (tables : List TableM) (hb : ∀ t ∈ tables, Built t)
    (hc : Consistent (tables.map (·.entries)).flatten) (k : Bytes) (r : Nat) (res : Option E)
    (hres : IsNewest (tables.map (·.entries)).flatten k r res) :
    search mayContain tables k r = res :=
  isNewest_unique hc (search_newest mayContain hbloom tables hb k r) hres

/-- non-vacuity: the hypotheses are met by a concrete two-table layout (three versions of one key
    split over single-entry blocks, a second table sharing the key) -/
example :
    let t1 : List E := [⟨⟨[107], 5⟩, [1], false, 5⟩, ⟨⟨[107], 3⟩, [2], false, 3⟩, ⟨⟨[107], 1⟩, [3], false, 1⟩]
    let t2 : List E := [⟨⟨[106], 2⟩, [9], false, 2⟩, ⟨⟨[107], 4⟩, [], true, 4⟩]
    (∀ t ∈ [buildTable 1 t1, buildTable 1 t2], Built t) ∧
      Consistent ([buildTable 1 t1, buildTable 1 t2].map (·.entries)).flatten := by
  intro t1 t2
  refine ⟨?_, ?_⟩
  · intro t ht
    simp only [List.mem_cons, List.not_mem_nil, or_false] at ht
    rcases ht with rfl | rfl
    · exact ⟨1, t1, by unfold SortedE; decide, rfl⟩
    · exact ⟨1, t2, by unfold SortedE; decide, rfl⟩
  · simp only [List.map_cons, List.map_nil, buildTable_entries]
    unfold Consistent; decide


/-! ### The Go code itself: `levelManager.searchLowerBound`, translated from `/repo/level.go` on every run -/

/-- the translated `searchLowerBound` — with `Index.LowerBound` / `Data.LowerBound` of the table model for its two
    per-table lookups — returns, for tables of any levels built with any block sizes and any bloom filter without
    false negatives, the newest version `≤ r` of `k` that any table holds, and `none` exactly when none holds one -/
theorem C10_code_lookup_newest (mayContain : TableM → Bytes → Bool)
    (hbloom : ∀ t e, e ∈ t.entries → mayContain t e.key.user = true)
    (levels : List (List TableM)) (hb : ∀ t ∈ levels.flatten, Built t) (k : Bytes) (r : Nat) :
    IsNewest (levels.flatten.map (·.entries)).flatten k r
      (GenLSM.searchLowerBound mayContain LSMTie.idxLB LSMTie.fetchLB levels ⟨k, r⟩) := by
  rw [LSMTie.search_tie]
  exact search_newest mayContain hbloom levels.flatten hb k r

/-- what the translated loops compute, for any lookup functions: a fold over every table of every level in which the
    bloom filter can only skip a table and a candidate replaces the current one only if it is newer -/
theorem C10_code_search_fold {T : Type} (mayContain : T → Bytes → Bool) (idxLB : T → VK → Option Nat)
    (fetchLB : T → Nat → VK → Option E) (levels : List (List T)) (key : VK) :
    GenLSM.searchLowerBound mayContain idxLB fetchLB levels key =
      LSMTie.toOpt (levels.flatten.foldl (fun a th => LSMTie.upd mayContain idxLB fetchLB key th a) (LSMTie.dflt, false)) :=
  LSMTie.searchLowerBound_eq mayContain idxLB fetchLB levels key


/-- the hand-written binary searches of `table/data.go` and `table/index.go` (translated from the Go source on every run,
    over Go `int`s with `low`, `high`, `mid`): on one table of any block size built from a sorted entry list, the index
    search followed by the block search returns the first entry `≥` the target — the composition of the two translated
    loops is the model's table lookup -/
theorem C10_code_table (bs : Nat) (es : List E) (hs : SortedE vlt es) (k : Bytes) (r : Nat) :
    ((GenTable.indexLowerIdx (lastGe vlt ⟨k, r⟩) (buildTable bs es).blocks).bind fun i =>
      ((buildTable bs es).blocks[i]?).bind fun b => (GenTable.dataLowerIdx (geKey vlt ⟨k, r⟩) b).bind (b[·]?))
      = es.find? (geKey vlt ⟨k, r⟩) := by
  rw [← TableTie.tableLookup_eq]
  exact C10_table bs es hs k r

/-- the block-cutting loop of `table.Build` (translated from the Go source on every run) lays the entries out as the
    model's `buildTable` does, for every block-size threshold: nothing is lost, reordered or duplicated, and the two
    translated searches find the first entry `≥` the target in the blocks the translated loop produced -/
theorem C10_code_build_and_search (bs : Nat) (es : List E) (hs : SortedE vlt es) (k : Bytes) (r : Nat) :
    GenTable.buildBlocks esize bs es = (buildTable bs es).blocks ∧ (GenTable.buildBlocks esize bs es).flatten = es ∧
    ((GenTable.indexLowerIdx (lastGe vlt ⟨k, r⟩) (GenTable.buildBlocks esize bs es)).bind fun i =>
      ((GenTable.buildBlocks esize bs es)[i]?).bind fun b => (GenTable.dataLowerIdx (geKey vlt ⟨k, r⟩) b).bind (b[·]?))
      = es.find? (geKey vlt ⟨k, r⟩) := by
  have h : GenTable.buildBlocks esize bs es = (buildTable bs es).blocks := TableTie.buildBlocks_eq esize bs es
  refine ⟨h, ?_, ?_⟩
  · rw [h]; exact buildTable_entries bs es
  · rw [h]; exact C10_code_table bs es hs k r

/-- non-vacuity: the translated search on a concrete block -/
example : GenTable.dataLowerIdx (fun (x : Nat) => decide (5 ≤ x)) [1, 3, 5, 7, 9] = some 2 ∧
    GenTable.dataLowerIdx (fun (x : Nat) => decide (10 ≤ x)) [1, 3, 5, 7, 9] = none ∧
    GenTable.indexLowerIdx (fun (x : Nat) => decide (0 ≤ x)) ([] : List Nat) = none := by decide

/-- the code of `table.Build` that lays out the file (the index loop, translated on every run): the handle stored in the index
    entry of block `i` cuts exactly the encoding of block `i` out of the data region, and the entry's start and end keys are
    the first and the last key of that block — what `Index.LowerBound` (end keys) and `lm.fetch` (handle) rely on; the
    seeded change C05-k stored another end key -/
theorem C10_code_index_layout {α κ β : Type} (encData : List α → List β) (keyOf : α → κ) (dflt : α) (bs : List (List α)) :
    ∃ ix, GenTable.buildIndex encData keyOf dflt bs = some (ix, (0, (bs.flatMap encData).length), bs.flatMap encData) ∧
      ix.length = bs.length ∧
      ∀ i (hi : i < bs.length), ∃ e, ix[i]? = some e ∧ e.1 = keyOf (bs[i].headD dflt) ∧ e.2.1 = keyOf (bs[i].getLastD dflt) ∧
        ((bs.flatMap encData).drop e.2.2.1).take e.2.2.2 = encData bs[i] := by
  refine ⟨_, TableTie.buildIndex_eq encData keyOf dflt bs, ?_, ?_⟩
  · generalize (0 : Nat) = off
    induction bs generalizing off with
    | nil => rfl
    | cons b bs ih => simp [TableTie.ixFrom, ih]
  · intro i hi
    simpa using TableTie.ixFrom_cuts encData keyOf dflt [] bs i hi

/-- The order the searches and the table builder rely on, about the *translated* `types.CompareKeys` (`GenTypes.compareKeys`,
regenerated from `/repo/types/types.go` on every run, `strings.Compare` = the byte order, `ParseKey` / `ParseTs` = the model's):
on versioned keys `user@ts` it answers negative exactly when the first key comes first in (user ascending, version descending) —
the order `vlt` in which `C10_lookup_newest` is stated — so "first entry not below `key@readTs`" is "newest version at or below
`readTs`" for the code's comparison, not only for the model's. -/
theorem C10_code_key_order (a b : VK) (h1 : a.ts < 2^64) (h2 : b.ts < 2^64) :
    GenTypes.compareKeys (fun x y => TypesTie.ordInt (cmpBytes x y)) TypesTie.pk parseTs (keyWithTs a.user a.ts) (keyWithTs b.user b.ts) < 0
      ↔ vlt a b = true :=
  TypesTie.compareKeys_neg_iff_vlt a b h1 h2

#print axioms C10_table
#print axioms C10_lookup_newest
#print axioms C10_lookup_unique
#print axioms C10_code_lookup_newest
#print axioms C10_code_search_fold
#print axioms C10_code_table
#print axioms C10_code_build_and_search
#print axioms C10_code_index_layout
#print axioms C10_code_key_order
end Props
