import Originium.Model.Skiplist
import Originium.Model.SkipArena
import Originium.Model.VKey
import Originium.Model.TypesTie
/-! # C17 — the skiplist behaves as a sorted map of versioned keys

Keys are versioned keys ordered by user key ascending, then version descending (`vlt`, which is
`types.CompareKeys < 0` on `key@ts` strings by `Key.compareKeys_keyWithTs`). -/
namespace Props
open Key VKey Table Skiplist

abbrev SE := Entry VK

inductive SkipOp where
  | set (e : SE) (height : Nat)      -- `height` is what `randomLevel()` returned: any value ≥ 1
  | delete (k : VK)

def skipRun (maxLevel : Nat) : List SkipOp → List (Node VK)
  | [] => []
  | ops => ops.foldl (fun l op => match op with
      | .set e h => Skiplist.set vlt maxLevel l e h
      | .delete k => (Skiplist.delete vlt maxLevel l k).1) []

def specRun : List SkipOp → List SE
  | ops => ops.foldl (fun l op => match op with
      | .set e _ => Spec.set vlt l e
      | .delete k => Spec.delete l k) []

def HeightsOk : List SkipOp → Prop
  | [] => True
  | .set _ h :: rest => 0 < h ∧ HeightsOk rest
  | .delete _ :: rest => HeightsOk rest

theorem delete_wf {maxLevel : Nat} (hm : 0 < maxLevel) {l : List (Node VK)} (hw : WF vlt l) (k : VK) :
    WF vlt (Skiplist.delete vlt maxLevel l k).1 := by
  have hall := (delete_all vlt vlt_trans vlt_irrefl hm hw k).1
  constructor
  · rw [sortedN_iff, hall]
    exact List.Pairwise.sublist List.filter_sublist ((sortedN_iff vlt l).mp hw.sorted)
  · intro n hn
    have : n ∈ l := by
      unfold Skiplist.delete at hn
      simp only at hn
      split at hn
      · split at hn
        · exact List.mem_of_mem_eraseIdx hn
        · exact hn
      · exact hn
    exact hw.heights n this

/-- every reachable skiplist state is well formed and its content is the sorted map's content,
    for every `maxLevel ≥ 1` and every sequence of tower heights ≥ 1 (i.e. every `p`, every seed) -/
theorem C17_refines (maxLevel : Nat) (hm : 0 < maxLevel) (ops : List SkipOp) (hh : HeightsOk ops) :
    WF vlt (skipRun maxLevel ops) ∧ all (skipRun maxLevel ops) = specRun ops := by
  have key : ∀ (ops : List SkipOp) (l : List (Node VK)) (sp : List SE), HeightsOk ops → WF vlt l → all l = sp →
      WF vlt (ops.foldl (fun l op => match op with
        | .set e h => Skiplist.set vlt maxLevel l e h
        | .delete k => (Skiplist.delete vlt maxLevel l k).1) l) ∧
      all (ops.foldl (fun l op => match op with
        | .set e h => Skiplist.set vlt maxLevel l e h
        | .delete k => (Skiplist.delete vlt maxLevel l k).1) l)
        = ops.foldl (fun l op => match op with
        | .set e _ => Spec.set vlt l e
        | .delete k => Spec.delete l k) sp := by
    intro ops
    induction ops with
    | nil => intro l sp _ hw hl; exact ⟨hw, hl⟩
    | cons op ops ih =>
      intro l sp hh hw hl
      cases op with
      | set e h =>
        simp only [List.foldl_cons]
        have hh' : 0 < h ∧ HeightsOk ops := hh
        exact ih _ _ hh'.2 (set_wf vlt vlt_trans vlt_irrefl vlt_total hm hw e hh'.1)
          (by rw [set_all vlt vlt_trans hm hw, hl])
      | delete k =>
        simp only [List.foldl_cons]
        exact ih _ _ hh (delete_wf hm hw k)
          (by rw [(delete_all vlt vlt_trans vlt_irrefl hm hw k).1, hl])
  have h0 : WF vlt ([] : List (Node VK)) := ⟨by simp [SortedN], by simp⟩
  have := key ops [] [] hh h0 rfl
  cases ops with
  | nil => exact ⟨h0, rfl⟩
  | cons op ops => simpa [skipRun, specRun] using this

/-- in every reachable state Get, LowerBound, Scan and All return exactly what the sorted map returns -/
theorem C17_queries (maxLevel : Nat) (hm : 0 < maxLevel) (ops : List SkipOp) (hh : HeightsOk ops) :
    let l := skipRun maxLevel ops
    let m := specRun ops
    (∀ k, Skiplist.get vlt maxLevel l k = Spec.get m k) ∧
    (∀ k, Skiplist.lowerBound vlt maxLevel l k = Spec.lowerBound vlt m k) ∧
    (∀ a b, Skiplist.scan vlt maxLevel l a b = Spec.scan vlt m a b) ∧
    all l = m ∧
    (∀ k, (Skiplist.delete vlt maxLevel l k).2 = (Spec.get m k).isSome) := by
  obtain ⟨hw, hall⟩ := C17_refines maxLevel hm ops hh
  refine ⟨?_, ?_, ?_, hall, ?_⟩
  · intro k; rw [← hall]; exact get_eq vlt vlt_trans vlt_irrefl vlt_total hm hw k
  · intro k; rw [← hall]; exact lowerBound_eq vlt vlt_trans hm hw k
  · intro a b; rw [← hall]; exact scan_eq vlt vlt_trans hm hw a b
  · intro k; rw [← hall]; exact (delete_all vlt vlt_trans vlt_irrefl hm hw k).2


/-! ## the pointer level (`Model/SkipArena.lean`)

The theorems above are about the tower model, which abstracts the `next[i]` pointers.  The pointer
model has them: `nxt src i` is `src.next[i]`; `Set` runs the search loop over the pointers, fills
`update[]` and relinks (`e.next[i] = update[i].next[i]; update[i].next[i] = e`), `Delete` unlinks
level by level until `update[i].next[i] != curr` and lowers `s.level`, `All` and `Scan` walk level
0.  Its state always *represents* the tower list (`SkipArena.Rep`: level `i` is the chain of the
nodes of height `> i` in key order), so everything proved for the tower model holds for it. -/

def HeightsIn (maxLevel : Nat) : List SkipOp → Prop
  | [] => True
  | .set _ h :: rest => (1 ≤ h ∧ h ≤ maxLevel) ∧ HeightsIn maxLevel rest
  | .delete _ :: rest => HeightsIn maxLevel rest

def stepT (maxLevel : Nat) (l : List (Node VK)) : SkipOp → List (Node VK)
  | .set e h => Skiplist.set vlt maxLevel l e h
  | .delete k => (Skiplist.delete vlt maxLevel l k).1

def stepA (maxLevel fuel : Nat) (s : SkipArena.SL VK) : SkipOp → SkipArena.SL VK
  | .set e h => SkipArena.setA vlt s maxLevel e h fuel
  | .delete k => (SkipArena.deleteA vlt s maxLevel k fuel).1

/-- the pointer model after a sequence of operations (`fuel` bounds its loops) -/
def arenaRun (maxLevel fuel : Nat) (ops : List SkipOp) : SkipArena.SL VK :=
  ops.foldl (stepA maxLevel fuel) SkipArena.emptySL

theorem skipRun_foldl (maxLevel : Nat) (ops : List SkipOp) : skipRun maxLevel ops = ops.foldl (stepT maxLevel) [] := by
  cases ops with
  | nil => rfl
  | cons op ops =>
    simp only [skipRun]
    congr 1

theorem stepT_length (maxLevel : Nat) (l : List (Node VK)) (op : SkipOp) : (stepT maxLevel l op).length ≤ l.length + 1 := by
  cases op with
  | set e h =>
    simp only [stepT, Skiplist.set]
    split
    · split
      · simp
      · simp only [List.length_append, List.length_take, List.length_cons, List.length_drop]; omega
    · simp only [List.length_append, List.length_take, List.length_cons, List.length_drop]; omega
  | delete k =>
    simp only [stepT, Skiplist.delete]
    split
    · split
      · have := List.length_eraseIdx_le l (findPos vlt maxLevel k l); dsimp only; omega
      · dsimp only; omega
    · dsimp only; omega

theorem stepT_wf {maxLevel : Nat} (hm : 0 < maxLevel) {l : List (Node VK)} (hw : WF vlt l) (op : SkipOp)
    (hh : match op with | .set _ h => 0 < h | .delete _ => True) : WF vlt (stepT maxLevel l op) := by
  cases op with
  | set e h => exact set_wf vlt vlt_trans vlt_irrefl vlt_total hm hw e hh
  | delete k => exact delete_wf hm hw k

/-- **the pointer structure always represents the tower list**, for every sequence of `Set` and
    `Delete` with tower heights in `1..maxLevel` -/
theorem C17_pointer_level_rep (maxLevel : Nat) (hm : 0 < maxLevel) (ops : List SkipOp) (hh : HeightsIn maxLevel ops)
    (fuel : Nat) (hf : ops.length ≤ fuel) :
    SkipArena.Rep maxLevel (arenaRun maxLevel fuel ops) (skipRun maxLevel ops) ∧ WF vlt (skipRun maxLevel ops) ∧
    (skipRun maxLevel ops).length ≤ ops.length := by
  rw [skipRun_foldl]
  unfold arenaRun
  have key : ∀ (ops : List SkipOp) (s : SkipArena.SL VK) (l : List (Node VK)), HeightsIn maxLevel ops →
      SkipArena.Rep maxLevel s l → WF vlt l → l.length + ops.length ≤ fuel →
      SkipArena.Rep maxLevel (ops.foldl (stepA maxLevel fuel) s) (ops.foldl (stepT maxLevel) l) ∧
      WF vlt (ops.foldl (stepT maxLevel) l) ∧ (ops.foldl (stepT maxLevel) l).length ≤ l.length + ops.length := by
    intro ops
    induction ops with
    | nil => intro s l _ hr hw _; exact ⟨hr, hw, by simp⟩
    | cons op ops ih =>
      intro s l hh hr hw hlen
      simp only [List.foldl_cons, List.length_cons] at hlen ⊢
      cases op with
      | set e h =>
        have hl1 := stepT_length maxLevel l (.set e h)
        have hh' : (1 ≤ h ∧ h ≤ maxLevel) ∧ HeightsIn maxLevel ops := hh
        have hr' := SkipArena.rep_set vlt vlt_trans vlt_irrefl vlt_total hm hr hw e hh'.1 (fuel := fuel) (by omega)
        have hw' := stepT_wf hm hw (.set e h) (by show 0 < h; omega)
        obtain ⟨a, b, c⟩ := ih (stepA maxLevel fuel s (.set e h)) (stepT maxLevel l (.set e h)) hh'.2 hr' hw' (by omega)
        exact ⟨a, b, by omega⟩
      | delete k =>
        have hl1 := stepT_length maxLevel l (.delete k)
        have hr' := (SkipArena.rep_delete vlt vlt_trans vlt_irrefl vlt_total hm hr hw k (fuel := fuel) (by omega)).1
        have hw' := stepT_wf hm hw (.delete k) trivial
        obtain ⟨a, b, c⟩ := ih (stepA maxLevel fuel s (.delete k)) (stepT maxLevel l (.delete k)) hh hr' hw' (by omega)
        exact ⟨a, b, by omega⟩
  have h0 : WF vlt ([] : List (Node VK)) := ⟨by simp [SortedN], by simp⟩
  obtain ⟨a, b, c⟩ := key ops SkipArena.emptySL [] hh (SkipArena.rep_empty maxLevel hm) h0 (by simpa using hf)
  exact ⟨a, b, by simpa using c⟩

/-- the observable operations of the pointer model — search over the pointers, then `next[0]` —
    return what the sorted map returns, in every reachable state -/
theorem C17_pointer_level_queries (maxLevel : Nat) (hm : 0 < maxLevel) (ops : List SkipOp) (hh : HeightsIn maxLevel ops)
    (fuel : Nat) (hf : ops.length < fuel) :
    let s := arenaRun maxLevel fuel ops
    let m := specRun ops
    (∀ k, SkipArena.getA vlt s maxLevel k fuel = Spec.get m k) ∧
    (∀ k, SkipArena.lowerBoundA vlt s maxLevel k fuel = Spec.lowerBound vlt m k) ∧
    (∀ a b, SkipArena.scanA vlt s maxLevel a b fuel = Spec.scan vlt m a b) ∧
    SkipArena.allA s fuel = m ∧
    (∀ k, (SkipArena.deleteA vlt s maxLevel k fuel).2 = (Spec.get m k).isSome) := by
  obtain ⟨hr, hw, hlen⟩ := C17_pointer_level_rep maxLevel hm ops hh fuel (Nat.le_of_lt hf)
  have hok : HeightsOk ops := by
    clear hr hw hlen hf
    induction ops with
    | nil => trivial
    | cons op ops ih =>
      cases op with
      | set e h => exact ⟨by have := hh.1.1; omega, ih hh.2⟩
      | delete k => exact ih hh
  obtain ⟨q1, q2, q3, q4, q5⟩ := C17_queries maxLevel hm ops hok
  refine ⟨?_, ?_, ?_, ?_, ?_⟩
  · intro k; rw [SkipArena.getA_eq vlt vlt_trans vlt_irrefl hm hr hw k (by omega)]; exact q1 k
  · intro k; rw [SkipArena.lowerBoundA_eq vlt vlt_trans vlt_irrefl hm hr hw k (by omega)]; exact q2 k
  · intro a b; rw [SkipArena.scanA_eq vlt vlt_trans vlt_irrefl hm hr hw a b (by omega)]; exact q3 a b
  · rw [SkipArena.allA_eq vlt vlt_irrefl hm hr hw (by omega)]; exact q4
  · intro k
    rw [(SkipArena.rep_delete vlt vlt_trans vlt_irrefl vlt_total hm hr hw k (fuel := fuel) (by omega)).2]
    exact q5 k

/-- non-vacuity: the pointer model on a concrete sequence (insert out of order, overwrite, delete the tallest node, re-insert) -/
example :
    let e (u : UInt8) (ts : Nat) (v : UInt8) : SE := ⟨⟨[u], ts⟩, [v], false, ts⟩
    let ops : List SkipOp := [.set (e 98 1 1) 2, .set (e 97 1 2) 1, .set (e 98 2 3) 3, .set (e 97 1 9) 2,
      .delete ⟨[98], 2⟩, .set (e 98 2 4) 1]
    SkipArena.allA (arenaRun 4 10 ops) 10 = [e 97 1 9, e 98 2 4, e 98 1 1] := by
  decide

/-- the sorted map itself: strictly sorted by (user ↑, version ↓); setting an existing versioned key
    replaces its value and tombstone flag and nothing else -/
theorem C17_spec_sorted (ops : List SkipOp) : SortedE vlt (specRun ops) := by
  have key : ∀ (ops : List SkipOp) (sp : List SE), SortedE vlt sp →
      SortedE vlt (ops.foldl (fun l op => match op with
        | .set e _ => Spec.set vlt l e
        | .delete k => Spec.delete l k) sp) := by
    intro ops
    induction ops with
    | nil => intro sp h; exact h
    | cons op ops ih =>
      intro sp h
      cases op with
      | set e _ =>
        exact ih _ (spec_set_sorted vlt vlt_trans h e (fun a b hab hne => by
          cases hba : vlt b a with
          | true => rfl
          | false => exact absurd (vlt_total a b hab hba) hne))
      | delete k => exact ih _ (List.Pairwise.sublist List.filter_sublist h)
  exact key ops [] (by simp [SortedE])

theorem C17_set_existing (m : List SE) (hs : SortedE vlt m) (old e : SE) (ho : old ∈ m) (hk : old.key = e.key) :
    Spec.get (Spec.set vlt m e) e.key = some { old with value := e.value, tomb := e.tomb } := by
  induction m with
  | nil => cases ho
  | cons x xs ih =>
    have hxs : SortedE vlt xs := (List.pairwise_cons.mp hs).2
    have hx := (List.pairwise_cons.mp hs).1
    unfold Spec.set
    rcases List.mem_cons.mp ho with rfl | ho'
    · have h1 : vlt old.key e.key = false := by rw [hk]; exact vlt_irrefl _
      rw [if_neg (by rw [h1]; simp), if_pos hk]
      simp [Spec.get, hk]
    · have hlt : vlt x.key e.key = true := by rw [← hk]; exact hx old ho'
      have hne : x.key ≠ e.key := by intro h; rw [h, vlt_irrefl] at hlt; cases hlt
      simp only [hlt, ↓reduceIte, Spec.get, List.find?_cons, hne, decide_false]
      exact ih hxs ho'

/-- the order of the model is the order of the code: `types.CompareKeys` on the strings `key@ts` that
    `types.KeyWithTs` builds is "user key ascending, then version descending", for all byte strings
    (user keys may contain `@`, bytes below `@`, digits) and all timestamps below 2^64 -/
theorem C17_order_is_compareKeys (k1 k2 : Bytes) (t1 t2 : Nat) (h1 : t1 < 2 ^ 64) (h2 : t2 < 2 ^ 64) :
    compareKeys? (keyWithTs k1 t1) (keyWithTs k2 t2) = some ((cmpBytes k1 k2).then (compare t2 t1)) ∧
    parseKey? (keyWithTs k1 t1) = some k1 ∧ parseTs (keyWithTs k1 t1) = t1 :=
  ⟨compareKeys_keyWithTs k1 k2 t1 t2 h1 h2, parseKey_keyWithTs k1 t1, parseTs_keyWithTs k1 t1 h1⟩

/-- … and `vlt` is exactly "that comparison is negative" -/
theorem C17_vlt_iff (a b : VK) :
    vlt a b = true ↔ (cmpBytes a.user b.user).then (compare b.ts a.ts) = Ordering.lt := by
  unfold vlt bltB
  cases hc : cmpBytes a.user b.user with
  | lt => simp [Ordering.then]
  | gt =>
    have hne : a.user ≠ b.user := by
      intro e; rw [e, (cmpBytes_eq_iff b.user b.user).mpr rfl] at hc; cases hc
    simp [Ordering.then, hne]
  | eq =>
    have he : a.user = b.user := (cmpBytes_eq_iff _ _).mp hc
    have h0 : (Ordering.eq == Ordering.lt) = false := rfl
    simp only [Ordering.then, he, beq_self_eq_true, Bool.true_and, h0, Bool.false_or, decide_eq_true_eq]
    exact Nat.compare_eq_lt.symm

example : HeightsOk [.set ⟨⟨[97], 1⟩, [1], false, 1⟩ 2, .delete ⟨[97], 1⟩, .set ⟨⟨[97], 2⟩, [], true, 2⟩ 1] := by
  simp [HeightsOk]

/-- The order of the skiplist is the order of the *translated* `types.CompareKeys` (`GenTypes.compareKeys`, regenerated from
`/repo/types/types.go` on every run): `CompareKeys(a, b) < 0` on `user@ts` keys exactly when `vlt a b`; and the translated
`types.IsSameKey` compares the user keys. -/
theorem C17_code_key_order (a b : VK) (h1 : a.ts < 2^64) (h2 : b.ts < 2^64) :
    (GenTypes.compareKeys (fun x y => TypesTie.ordInt (cmpBytes x y)) TypesTie.pk parseTs (keyWithTs a.user a.ts) (keyWithTs b.user b.ts) < 0
      ↔ vlt a b = true) ∧
    GenTypes.isSameKey TypesTie.pk (keyWithTs a.user a.ts) (keyWithTs b.user b.ts) = decide (a.user = b.user) :=
  ⟨TypesTie.compareKeys_neg_iff_vlt a b h1 h2, TypesTie.isSameKey_keyWithTs _ _ _ _⟩

#print axioms C17_refines
#print axioms C17_pointer_level_rep
#print axioms C17_pointer_level_queries
#print axioms C17_queries
#print axioms C17_spec_sorted
#print axioms C17_set_existing
#print axioms C17_order_is_compareKeys
#print axioms C17_vlt_iff
#print axioms C17_code_key_order
end Props
