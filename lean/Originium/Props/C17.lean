import Originium.Model.Skiplist
import Originium.Model.VKey
/-! # C17 — the skiplist behaves as a sorted map of versioned keys

Keys are versioned keys ordered by user key ascending, then version descending (`vlt`, which is
`types.CompareKeys < 0` on `key@ts` strings by `Key.compareKeys_keyWithTs`). -/
namespace Props
open Key VKey Table Skiplist

abbrev SE := Entry VK

inductive SkipOp where
  | set (e : SE) (height : Nat)      -- `height` is what `randomLevel()` returned: any value ≥ 1
  | delete (k : VK)

def skipRun (maxLevel : Nat) : List SkipOp → List (Node VK)
  | [] => []
  | ops => ops.foldl (fun l op => match op with
      | .set e h => Skiplist.set vlt maxLevel l e h
      | .delete k => (Skiplist.delete vlt maxLevel l k).1) []

def specRun : List SkipOp → List SE
  | ops => ops.foldl (fun l op => match op with
      | .set e _ => Spec.set vlt l e
      | .delete k => Spec.delete l k) []

def HeightsOk : List SkipOp → Prop
  | [] => True
  | .set _ h :: rest => 0 < h ∧ HeightsOk rest
  | .delete _ :: rest => HeightsOk rest

theorem delete_wf {maxLevel : Nat} (hm : 0 < maxLevel) {l : List (Node VK)} (hw : WF vlt l) (k : VK) :
    WF vlt (Skiplist.delete vlt maxLevel l k).1 := by
  have hall := (delete_all vlt vlt_trans vlt_irrefl hm hw k).1
  constructor
  · rw [sortedN_iff, hall]
    exact List.Pairwise.sublist List.filter_sublist ((sortedN_iff vlt l).mp hw.sorted)
  · intro n hn
    have : n ∈ l := by
      unfold Skiplist.delete at hn
      simp only at hn
      split at hn
      · split at hn
        · exact List.mem_of_mem_eraseIdx hn
        · exact hn
      · exact hn
    exact hw.heights n this

/-- every reachable skiplist state is well formed and its content is the sorted map's content,
    for every `maxLevel ≥ 1` and every sequence of tower heights ≥ 1 (i.e. every `p`, every seed) -/
theorem C17_refines (maxLevel : Nat) (hm : 0 < maxLevel) (ops : List SkipOp) (hh : HeightsOk ops) :
    WF vlt (skipRun maxLevel ops) ∧ all (skipRun maxLevel ops) = specRun ops := by
  have key : ∀ (ops : List SkipOp) (l : List (Node VK)) (sp : List SE), HeightsOk ops → WF vlt l → all l = sp →
      WF vlt (ops.foldl (fun l op => match op with
        | .set e h => Skiplist.set vlt maxLevel l e h
        | .delete k => (Skiplist.delete vlt maxLevel l k).1) l) ∧
      all (ops.foldl (fun l op => match op with
        | .set e h => Skiplist.set vlt maxLevel l e h
        | .delete k => (Skiplist.delete vlt maxLevel l k).1) l)
        = ops.foldl (fun l op => match op with
        | .set e _ => Spec.set vlt l e
        | .delete k => Spec.delete l k) sp := by
    intro ops
    induction ops with
    | nil => intro l sp _ hw hl; exact ⟨hw, hl⟩
    | cons op ops ih =>
      intro l sp hh hw hl
      cases op with
      | set e h =>
        simp only [List.foldl_cons]
        have hh' : 0 < h ∧ HeightsOk ops := hh
        exact ih _ _ hh'.2 (set_wf vlt vlt_trans vlt_irrefl vlt_total hm hw e hh'.1)
          (by rw [set_all vlt vlt_trans hm hw, hl])
      | delete k =>
        simp only [List.foldl_cons]
        exact ih _ _ hh (delete_wf hm hw k)
          (by rw [(delete_all vlt vlt_trans vlt_irrefl hm hw k).1, hl])
  have h0 : WF vlt ([] : List (Node VK)) := ⟨by simp [SortedN], by simp⟩
  have := key ops [] [] hh h0 rfl
  cases ops with
  | nil => exact ⟨h0, rfl⟩
  | cons op ops => simpa [skipRun, specRun] using this

/-- in every reachable state Get, LowerBound, Scan and All return exactly what the sorted map returns -/
theorem C17_queries (maxLevel : Nat) (hm : 0 < maxLevel) (ops : List SkipOp) (hh : HeightsOk ops) :
    let l := skipRun maxLevel ops
    let m := specRun ops
    (∀ k, Skiplist.get vlt maxLevel l k = Spec.get m k) ∧
    (∀ k, Skiplist.lowerBound vlt maxLevel l k = Spec.lowerBound vlt m k) ∧
    (∀ a b, Skiplist.scan vlt maxLevel l a b = Spec.scan vlt m a b) ∧
    all l = m ∧
    (∀ k, (Skiplist.delete vlt maxLevel l k).2 = (Spec.get m k).isSome) := by
  obtain ⟨hw, hall⟩ := C17_refines maxLevel hm ops hh
  refine ⟨?_, ?_, ?_, hall, ?_⟩
  · intro k; rw [← hall]; exact get_eq vlt vlt_trans vlt_irrefl vlt_total hm hw k
  · intro k; rw [← hall]; exact lowerBound_eq vlt vlt_trans hm hw k
  · intro a b; rw [← hall]; exact scan_eq vlt vlt_trans hm hw a b
  · intro k; rw [← hall]; exact (delete_all vlt vlt_trans vlt_irrefl hm hw k).2

/-- the sorted map itself: strictly sorted by (user ↑, version ↓); setting an existing versioned key
    replaces its value and tombstone flag and nothing else -/
theorem C17_spec_sorted (ops : List SkipOp) : SortedE vlt (specRun ops) := by
  have key : ∀ (ops : List SkipOp) (sp : List SE), SortedE vlt sp →
      SortedE vlt (ops.foldl (fun l op => match op with
        | .set e _ => Spec.set vlt l e
        | .delete k => Spec.delete l k) sp) := by
    intro ops
    induction ops with
    | nil => intro sp h; exact h
    | cons op ops ih =>
      intro sp h
      cases op with
      | set e _ =>
        exact ih _ (spec_set_sorted vlt vlt_trans h e (fun a b hab hne => by
          cases hba : vlt b a with
          | true => rfl
          | false => exact absurd (vlt_total a b hab hba) hne))
      | delete k => exact ih _ (List.Pairwise.sublist List.filter_sublist h)
  exact key ops [] (by simp [SortedE])

theorem C17_set_existing (m : List SE) (hs : SortedE vlt m) (old e : SE) (ho : old ∈ m) (hk : old.key = e.key) :
    Spec.get (Spec.set vlt m e) e.key = some { old with value := e.value, tomb := e.tomb } := by
  induction m with
  | nil => cases ho
  | cons x xs ih =>
    have hxs : SortedE vlt xs := (List.pairwise_cons.mp hs).2
    have hx := (List.pairwise_cons.mp hs).1
    unfold Spec.set
    rcases List.mem_cons.mp ho with rfl | ho'
    · have h1 : vlt old.key e.key = false := by rw [hk]; exact vlt_irrefl _
      rw [if_neg (by rw [h1]; simp), if_pos hk]
      simp [Spec.get, hk]
    · have hlt : vlt x.key e.key = true := by rw [← hk]; exact hx old ho'
      have hne : x.key ≠ e.key := by intro h; rw [h, vlt_irrefl] at hlt; cases hlt
      simp only [hlt, ↓reduceIte, Spec.get, List.find?_cons, hne, decide_false]
      exact ih hxs ho'

/-- the order of the model is the order of the code: `types.CompareKeys` on the strings `key@ts` that
    `types.KeyWithTs` builds is "user key ascending, then version descending", for all byte strings
    (user keys may contain `@`, bytes below `@`, digits) and all timestamps below 2^64 -/
theorem C17_order_is_compareKeys (k1 k2 : Bytes) (t1 t2 : Nat) (h1 : t1 < 2 ^ 64) (h2 : t2 < 2 ^ 64) :
    compareKeys? (keyWithTs k1 t1) (keyWithTs k2 t2) = some ((cmpBytes k1 k2).then (compare t2 t1)) ∧
    parseKey? (keyWithTs k1 t1) = some k1 ∧ parseTs (keyWithTs k1 t1) = t1 :=
  ⟨compareKeys_keyWithTs k1 k2 t1 t2 h1 h2, parseKey_keyWithTs k1 t1, parseTs_keyWithTs k1 t1 h1⟩

/-- … and `vlt` is exactly "that comparison is negative" -/
theorem C17_vlt_iff (a b : VK) :
    vlt a b = true ↔ (cmpBytes a.user b.user).then (compare b.ts a.ts) = Ordering.lt := by
  unfold vlt bltB
  cases hc : cmpBytes a.user b.user with
  | lt => simp [Ordering.then]
  | gt =>
    have hne : a.user ≠ b.user := by
      intro e; rw [e, (cmpBytes_eq_iff b.user b.user).mpr rfl] at hc; cases hc
    simp [Ordering.then, hne]
  | eq =>
    have he : a.user = b.user := (cmpBytes_eq_iff _ _).mp hc
    have h0 : (Ordering.eq == Ordering.lt) = false := rfl
    simp only [Ordering.then, he, beq_self_eq_true, Bool.true_and, h0, Bool.false_or, decide_eq_true_eq]
    exact Nat.compare_eq_lt.symm

example : HeightsOk [.set ⟨⟨[97], 1⟩, [1], false, 1⟩ 2, .delete ⟨[97], 1⟩, .set ⟨⟨[97], 2⟩, [], true, 2⟩ 1] := by
  simp [HeightsOk]

#print axioms C17_refines
#print axioms C17_queries
#print axioms C17_spec_sorted
#print axioms C17_set_existing
#print axioms C17_order_is_compareKeys
#print axioms C17_vlt_iff
end Props
