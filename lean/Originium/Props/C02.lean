import Originium.Model.DBProofs
import Originium.Model.LevelTie
import Originium.Model.DBTie
/-! # C02 — Close and reopen preserve the committed state; the store stays writable -/
namespace Props
open Key VKey Table Levels Compact LSM DB

/-- the steps `Close` performs are always enabled: drain the queue oldest first, then flush the active memtable -/
theorem closeSteps_run (bs : Nat) (s : St) (h : Inv s) :
    ∃ s', (closeSteps bs s.imms.length s.flushed (!s.mem.isEmpty)).foldlM step s = some s' ∧
      Inv s' ∧ s'.committed = s.committed ∧ s'.nextTs = s.nextTs ∧ s'.imms = [] ∧ s'.mem = [] := by
  suffices key : ∀ (n : Nat) (s : St), Inv s → s.imms.length = n →
      ∃ s', (closeSteps bs n s.flushed (!s.mem.isEmpty)).foldlM step s = some s' ∧
        Inv s' ∧ s'.committed = s.committed ∧ s'.nextTs = s.nextTs ∧ s'.imms = [] ∧ s'.mem = [] from key _ s h rfl
  intro n
  induction n with
  | zero =>
    intro s h hn
    have himms : s.imms = [] := List.length_eq_zero_iff.mp hn
    have hfl : s.flushed = false := by
      cases hf : s.flushed with
      | false => rfl
      | true => exact absurd himms (h.flushedImms hf)
    cases hm : s.mem.isEmpty with
    | true =>
      have : s.mem = [] := by simpa using hm
      exact ⟨s, by simp [closeSteps], h, rfl, rfl, himms, this⟩
    | false =>
      -- rotate, flushAdd, flushRemove
      simp only [closeSteps, Bool.not_false, ↓reduceIte]
      have h1 : step s .rotate = some { s with imms := s.imms ++ [s.mem], mem := [] } := by
        simp [step, hm]
      have hi1 := inv_rotate h h1
      have h2 : step { s with imms := s.imms ++ [s.mem], mem := [] } (.flushAdd bs)
          = some { s with imms := [s.mem], mem := [], tables := s.tables ++ [buildTable bs s.mem], flushed := true } := by
        simp [step, himms, hfl]
      have hi2 := inv_flushAdd hi1 bs h2
      have h3 : step { s with imms := [s.mem], mem := [], tables := s.tables ++ [buildTable bs s.mem], flushed := true } .flushRemove
          = some { s with imms := [], mem := [], tables := s.tables ++ [buildTable bs s.mem], flushed := false } := by
        simp [step]
      have hi3 := inv_flushRemove hi2 h3
      refine ⟨_, ?_, hi3, rfl, rfl, rfl, rfl⟩
      simp [List.foldlM_cons, h1, h2, h3]
  | succ n ih =>
    intro s h hn
    cases himms : s.imms with
    | nil => rw [himms] at hn; simp at hn
    | cons g rest =>
      cases hf : s.flushed with
      | true =>
        simp only [closeSteps, ↓reduceIte, List.singleton_append, List.foldlM_cons, Option.bind_eq_bind]
        have h1 : step s .flushRemove = some { s with imms := rest, flushed := false } := by
          simp [step, himms, hf]
        have hi1 := inv_flushRemove h h1
        rw [h1]
        simp only [Option.bind_some]
        have hlen : ({ s with imms := rest, flushed := false } : St).imms.length = n := by
          rw [himms] at hn; simpa using hn
        obtain ⟨s', hs', hinv', hc', hn', hi', hm'⟩ := ih _ hi1 hlen
        exact ⟨s', hs', hinv', hc', hn', hi', hm'⟩
      | false =>
        simp only [closeSteps, Bool.false_eq_true, ↓reduceIte, List.cons_append, List.nil_append,
          List.foldlM_cons, Option.bind_eq_bind]
        have h1 : step s (.flushAdd bs) = some { s with tables := s.tables ++ [buildTable bs g], flushed := true } := by
          simp [step, himms, hf]
        have hi1 := inv_flushAdd h bs h1
        have h2 : step { s with tables := s.tables ++ [buildTable bs g], flushed := true } .flushRemove
            = some { s with tables := s.tables ++ [buildTable bs g], imms := rest, flushed := false } := by
          simp [step, himms]
        have hi2 := inv_flushRemove hi1 h2
        rw [h1]
        simp only [Option.bind_some]
        rw [h2]
        simp only [Option.bind_some]
        have hlen : ({ s with tables := s.tables ++ [buildTable bs g], imms := rest, flushed := false } : St).imms.length = n := by
          rw [himms] at hn; simpa using hn
        obtain ⟨s', hs', hinv', hc', hn', hi', hm'⟩ := ih _ hi2 hlen
        exact ⟨s', hs', hinv', hc', hn', hi', hm'⟩

def isCompact : Step → Bool
  | .compact _ _ _ => true
  | _ => false

theorem step_low {a b : St} {st : Step} (hc : isCompact st = false) (h : step a st = some b) : b.low = a.low := by
  cases st with
  | commit ws => simp only [step] at h; split at h <;> simp at h; rw [← h]
  | rotate => simp only [step] at h; split at h <;> simp at h; rw [← h]
  | flushAdd b' => simp only [step] at h; split at h <;> simp at h; rw [← h]
  | flushRemove => simp only [step] at h; split at h <;> simp at h; rw [← h]
  | compact x y z => simp [isCompact] at hc

theorem foldlM_low (steps : List Step) (a b : St) (hc : ∀ st ∈ steps, isCompact st = false)
    (h : steps.foldlM step a = some b) : b.low = a.low := by
  induction steps generalizing a with
  | nil => simp at h; rw [h]
  | cons st rest ih =>
    simp only [List.foldlM_cons, Option.bind_eq_bind] at h
    cases h1 : step a st with
    | none => rw [h1] at h; simp at h
    | some a1 =>
      rw [h1] at h
      simp only [Option.bind_some] at h
      rw [ih a1 (fun st' hst' => hc st' (by simp [hst'])) h, step_low (hc st (by simp)) h1]

theorem closeSteps_noCompact (bs : Nat) (n : Nat) (fl m : Bool) : ∀ st ∈ closeSteps bs n fl m, isCompact st = false := by
  induction n generalizing fl with
  | zero =>
    intro st hst
    simp only [closeSteps] at hst
    split at hst
    · simp only [List.mem_cons, List.not_mem_nil, or_false] at hst
      rcases hst with rfl | rfl | rfl <;> rfl
    · cases hst
  | succ n ih =>
    intro st hst
    simp only [closeSteps, List.mem_append] at hst
    rcases hst with hst | hst
    · split at hst
      · simp only [List.mem_singleton] at hst; rw [hst]; rfl
      · simp only [List.mem_cons, List.not_mem_nil, or_false] at hst
        rcases hst with rfl | rfl <;> rfl
    · exact ih false st hst

/-- Close followed by Open (with any block size, i.e. any new configuration) always succeeds from a
    reachable state — immediately after a rotation, with a non-empty flush queue, with an empty
    memtable —, leaves the committed history untouched, satisfies the invariant again (so every key
    reads exactly as before, by the read theorem), and the timestamp counter recomputed from the
    stored versions is the counter from before the restart: no timestamp is reused, later commits
    supersede everything stored. -/
theorem C02_reopen (bs : Nat) (s : St) (h : Inv s) :
    ∃ s', reopen bs s = some s' ∧ Inv s' ∧ s'.committed = s.committed ∧ s'.nextTs = s.nextTs ∧
      s'.mem = [] ∧ s'.imms = [] := by
  obtain ⟨s1, hs1, hinv1, hc1, hn1, hi1, hm1⟩ := closeSteps_run bs s h
  have hmax := maxTs_present hinv1
  refine ⟨{ s1 with nextTs := maxTs (present s1) + 1 }, by simp [reopen, hs1], ?_, hc1, by simp only; omega, hm1, hi1⟩
  have : ({ s1 with nextTs := maxTs (present s1) + 1 } : St) = s1 := by
    cases s1; simp only at hmax ⊢; simp [hmax]
  rw [this]; exact hinv1

/-- reads before and after any number of close/open cycles interleaved with further steps agree with the
    specification, hence with each other: `reopen` is invisible to readers -/
theorem C02_reopen_reads (mayContain : TableM → Bytes → Bool)
    (hbloom : ∀ t e, e ∈ t.entries → mayContain t e.key.user = true)
    (bs : Nat) (s s' : St) (h : Inv s) (hr : reopen bs s = some s') (k : Bytes) (r : Nat) (hlow : s.low ≤ r) :
    DB.get mayContain s' k r = DB.get mayContain s k r := by
  obtain ⟨s2, hs2, hinv2, hc2, _, _, _⟩ := C02_reopen bs s h
  rw [hr] at hs2
  injection hs2 with hs2
  subst hs2
  have hlow' : s'.low ≤ r := by
    obtain ⟨s1, hs1, _, _, _, _, _⟩ := closeSteps_run bs s h
    have := foldlM_low _ s s1 (closeSteps_noCompact bs _ _ _) hs1
    simp only [reopen, hs1, Option.map_some, Option.some.injEq] at hr
    rw [← hr]; simp only; omega
  rw [get_eq_spec mayContain hbloom hinv2 k r hlow', get_eq_spec mayContain hbloom h k r hlow, hc2]

/-- the store stays writable: the reopened state is an ordinary state of the model, so every further
    step sequence keeps the invariant and C01 keeps holding -/
theorem C02_still_writable (bs : Nat) (s s' s'' : St) (h : Inv s) (hr : reopen bs s = some s')
    (more : List Step) (hm : more.foldlM step s' = some s'') : Inv s'' := by
  obtain ⟨s2, hs2, hinv2, _⟩ := C02_reopen bs s h
  rw [hr] at hs2; injection hs2 with hs2; subst hs2
  exact inv_foldlM hinv2 more hm


/-- the Go code itself (`levelManager.maxLevelIdx`, translated from /repo/level.go on every run): the index
    `maxLevelIdx + 1` that names the next table written into a level — by a flush, an L0 or an LN compaction, also right
    after a recovery, in whatever order the handles of the level are listed — is above the index of every table the level
    holds, so writing the new table never replaces a live one -/
theorem C02_code_fresh_table_name (idxs : List Int) :
    (∀ x ∈ idxs, x < GenLevel.maxLevelIdx idxs + 1) ∧ GenLevel.maxLevelIdx [] + 1 = 0 :=
  ⟨LevelTie.maxLevelIdx_fresh idxs, by rw [LevelTie.maxLevelIdx_empty]; rfl⟩

/-- non-vacuity: handles listed as a recovery lists them (`0-10` before `0-2`) -/
example : GenLevel.maxLevelIdx [0, 1, 10, 11, 2, 9] + 1 = 12 := by decide


/-- the Go code itself (`DB.Close`, translated from /repo/db.go on every run): Close refuses new commits, waits for the
    commit in flight, tells the flusher to stop and waits until it has drained its queue, and only then freezes the active
    memtable and flushes it (an empty one: its wal is deleted) — nothing committed stays behind in memory -/
theorem C02_code_close (size : Nat) (df : Bool) :
    GenDB.close size df [] =
      ["state := Closed", "writeLock.Lock", "defer writeLock.Unlock", "closeC <- signal", "<-closed", "memtable.freeze",
        if 0 < size then "flushImmutable memtable" else "wal.Delete"] :=
  DBTie.close_table size df

/-- the code of `Open` (translated from /repo on every run): the recovered oracle starts above every version found on disk —
    in the leftover wals and in the tables alike — both watermarks stand exactly one below the next timestamp (so the first
    Begin reads everything recovered and waits for nothing), and the flusher starts only after both recoveries -/
theorem C02_code_open (walMax dbMax : Nat) :
    ∃ ev, GenDB.openDB false false walMax dbMax [] = some (max walMax dbMax + 1, ev) ∧
      walMax < max walMax dbMax + 1 ∧ dbMax < max walMax dbMax + 1 ∧
      ("readMark.Done", max walMax dbMax) ∈ ev ∧ ("commitMark.Done", max walMax dbMax) ∈ ev ∧
      ev.getLast? = some ("go db.run", 0) := by
  refine ⟨_, DBTie.open_table false false walMax dbMax, by omega, by omega, by simp, by simp, by simp⟩

/-- the code of `levelManager.recover` (translated on every run): Open rebuilds one handle for every `.db` file of the directory —
    none is skipped, sub-directories and other files are ignored, leftover `.tmp` files are removed and nothing else is — and
    returns the largest version of any entry of any table (what `C02_code_open` continues from); an empty directory gives 0 -/
theorem C02_code_recover_tables {φ ν η ι β : Type} (isDir isDB isTmp : φ → Bool) (fname : φ → ν) (sortN : List ν → List ν)
    (plevel pidx : ν → Nat) (indexOf : ν → ι) (entriesOf : ν → List η) (ver : η → Nat) (mkFilter : List η → β) (files : List φ) :
    let names := (files.filter (fun f => !isDir f && isDB f)).map fname
    let removed := (files.filter (fun f => !isDir f && isTmp f)).map (fun f => ("os.Remove (leftover tmp)", fname f))
    GenLevel.recover isDir isDB isTmp fname sortN plevel pidx (fun _ => false) (fun _ _ => false) indexOf entriesOf ver mkFilter false files [] =
      if names.length = 0 then some (0, [], removed)
      else some (((sortN names).flatMap entriesOf).foldl (fun m e => max m (ver e)) 0,
                 ((sortN names).foldl (LevelTie.stepFile plevel pidx indexOf entriesOf ver mkFilter) (0, [])).2, removed) := by
  intro names removed
  rw [LevelTie.recover_table]
  simp only [names, removed]
  split
  · rfl
  · rw [LevelTie.stepFile_max]

#print axioms C02_reopen
#print axioms C02_reopen_reads
#print axioms C02_still_writable
#print axioms C02_code_fresh_table_name
#print axioms C02_code_close
#print axioms C02_code_open
#print axioms C02_code_recover_tables
end Props
