import Originium.Model.Filter
import Originium.Model.LSM
import Originium.Model.FilterTie
import Originium.Model.LevelTie
/-! # C16 — the bloom filter never denies a key it was built from -/
namespace Props
open Key VKey Levels

/-- For every hash family `h` (murmur3 with any seeds is one), every number of hash functions `k`
    (also 0), every bit count `m > 0` and every entry list — any size, any key bytes, any number of
    versions of one key — the filter built from the entries answers "possibly present" for the
    user key of every entry. -/
theorem C16_no_false_negative (h : Nat → Bytes → Nat) (m k : Nat) (hm : 0 < m) (es : List E) :
    ∀ e ∈ es, Filter.contains h (Filter.build h m k (es.map (·.key.user))) e.key.user = true := by
  intro e he
  exact Filter.build_contains h m k hm _ _ (List.mem_map_of_mem he)

/-- adding further keys never clears a bit: membership answers are monotone -/
theorem C16_monotone (h : Nat → Bytes → Nat) (f : Filter.F) (key other : Bytes)
    (hc : Filter.contains h f key = true) : Filter.contains h (Filter.add h f other) key = true :=
  Filter.contains_mono (Filter.add_le h f other) h key hc

/-- the filter is a function of the entry list only: a filter rebuilt at recovery from the decoded
    table content (C11: decoding gives back the entries) is the filter the flush built, so it is
    exactly the `mayContain` that C10 assumes to have no false negatives -/
theorem C16_rebuilt (h : Nat → Bytes → Nat) (m k : Nat) (hm : 0 < m) (t : LSM.TableM) :
    ∀ e ∈ t.entries, Filter.contains h (Filter.build h m k (t.entries.map (·.key.user))) e.key.user = true :=
  C16_no_false_negative h m k hm t.entries

/-- the user key the filter is fed with is the byte string `ParseKey` extracts from the stored key -/
theorem C16_user_key (u : Bytes) (ts : Nat) : parseKey? (keyWithTs u ts) = some u := parseKey_keyWithTs u ts

example : Filter.contains (fun i key => i + key.length) (Filter.build (fun i key => i + key.length) 7 3 [[1], [2, 3]]) [2, 3] = true := by
  decide

/-- the Go code itself (`filter.Build`, `Filter.Add`, `Filter.Contains`, translated from /repo on every run): for every hash
    family, every number of hash functions, every bit count `m > 0` (what `New` computes for a non-empty entry list), every
    projection `ukey` (the code uses `types.ParseKey`) and every entry list, the built filter contains the user key of
    every entry -/
theorem C16_code_no_false_negative {ε : Type} (h : Nat → Bytes → Nat) (ukey : ε → Bytes) (m k : Nat) (hm : 0 < m) (kvs : List ε) :
    ∀ e ∈ kvs, GenFilter.contains h (List.range k) (GenFilter.build h ukey m k kvs) (ukey e) = true :=
  FilterTie.code_no_false_negative h ukey m k hm kvs

/-- the translated code is the model: same bits, same answers -/
theorem C16_code_is_model {ε : Type} (h : Nat → Bytes → Nat) (ukey : ε → Bytes) (m k : Nat) (kvs : List ε) (key : Bytes) :
    GenFilter.build h ukey m k kvs = (Filter.build h m k (kvs.map ukey)).bits ∧
      GenFilter.contains h (List.range k) (GenFilter.build h ukey m k kvs) key =
        Filter.containsLoop h { bits := (Filter.build h m k (kvs.map ukey)).bits, k := k } key (List.range k) :=
  ⟨FilterTie.build_eq h ukey m k kvs, by rw [FilterTie.build_eq, FilterTie.contains_eq h _ _ k]⟩

example : GenFilter.contains (fun i (key : Bytes) => i + key.length) (List.range 3)
    (GenFilter.build (fun i (key : Bytes) => i + key.length) id 7 3 [[1], [2, 3]]) [2, 3] = true := by decide

/-- the code of `levelManager.recover` (translated from /repo on every run): every handle Open rebuilds for a level carries the
    filter built by `filter.Build` from the decoded entries of that very table file — so with `C16_code_no_false_negative` a
    recovered table's filter contains every key of the table (the seeded change C16-g built it from other entries) -/
theorem C16_code_recovered_filter {φ ν η ι β : Type} (isDir isDB isTmp : φ → Bool) (fname : φ → ν) (sortN : List ν → List ν)
    (plevel pidx : ν → Nat) (indexOf : ν → ι) (entriesOf : ν → List η) (ver : η → Nat) (mkFilter : List η → β) (files : List φ)
    (hne : ((files.filter (fun f => !isDir f && isDB f)).map fname).length ≠ 0) :
    ∃ maxV levels ev,
      GenLevel.recover isDir isDB isTmp fname sortN plevel pidx (fun _ => false) (fun _ _ => false) indexOf entriesOf ver mkFilter false files [] =
        some (maxV, levels, ev) ∧
      ∀ L, levels.getD L [] =
        ((sortN ((files.filter (fun f => !isDir f && isDB f)).map fname)).filter (fun n => plevel n == L)).map
          fun n => (pidx n, mkFilter (entriesOf n), indexOf n) := by
  rw [LevelTie.recover_table]
  dsimp only
  rw [if_neg hne]
  refine ⟨_, _, _, rfl, ?_⟩
  intro L
  rw [LevelTie.stepFile_handles]
  simp

#print axioms C16_no_false_negative
#print axioms C16_monotone
#print axioms C16_code_no_false_negative
#print axioms C16_code_is_model
#print axioms C16_code_recovered_filter
#print axioms C16_rebuilt
#print axioms C16_user_key
end Props
