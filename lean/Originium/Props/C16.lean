import Originium.Model.Filter
import Originium.Model.LSM
/-! # C16 — the bloom filter never denies a key it was built from -/
namespace Props
open Key VKey Levels

/-- For every hash family `h` (murmur3 with any seeds is one), every number of hash functions `k`
    (also 0), every bit count `m > 0` and every entry list — any size, any key bytes, any number of
    versions of one key — the filter built from the entries answers "possibly present" for the
    user key of every entry. -/
theorem C16_no_false_negative (h : Nat → Bytes → Nat) (m k : Nat) (hm : 0 < m) (es : List E) :
    ∀ e ∈ es, Filter.contains h (Filter.build h m k (es.map (·.key.user))) e.key.user = true := by
  intro e he
  exact Filter.build_contains h m k hm _ _ (List.mem_map_of_mem he)

/-- adding further keys never clears a bit: membership answers are monotone -/
theorem C16_monotone (h : Nat → Bytes → Nat) (f : Filter.F) (key other : Bytes)
    (hc : Filter.contains h f key = true) : Filter.contains h (Filter.add h f other) key = true :=
  Filter.contains_mono (Filter.add_le h f other) h key hc

/-- the filter is a function of the entry list only: a filter rebuilt at recovery from the decoded
    table content (C11: decoding gives back the entries) is the filter the flush built, so it is
    exactly the `mayContain` that C10 assumes to have no false negatives -/
theorem C16_rebuilt (h : Nat → Bytes → Nat) (m k : Nat) (hm : 0 < m) (t : LSM.TableM) :
    ∀ e ∈ t.entries, Filter.contains h (Filter.build h m k (t.entries.map (·.key.user))) e.key.user = true :=
  C16_no_false_negative h m k hm t.entries

/-- the user key the filter is fed with is the byte string `ParseKey` extracts from the stored key -/
theorem C16_user_key (u : Bytes) (ts : Nat) : parseKey? (keyWithTs u ts) = some u := parseKey_keyWithTs u ts

example : Filter.contains (fun i key => i + key.length) (Filter.build (fun i key => i + key.length) 7 3 [[1], [2, 3]]) [2, 3] = true := by
  decide

#print axioms C16_no_false_negative
#print axioms C16_monotone
#print axioms C16_rebuilt
#print axioms C16_user_key
end Props
