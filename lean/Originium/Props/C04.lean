import Originium.Model.DiskProgMain
import Originium.Model.DBTie
import Originium.Model.WalTie
import Originium.Model.TxnTie
/-! # C04 — after a crash every transaction is visible completely or not at all (process-crash model)

In an accepted trace a transaction reaches the disk by exactly one event `commit id b` carrying its
whole batch (one write call; the memtable is rotated after the batch, never inside it). -/
namespace Props
open Key VKey Table Levels LSM Disk

/-- at every crash point, for every transaction: if its batch has been written, every one of its
    entries is still reachable or shadowed by a newer version; if it has not, none of its entries is
    on the disk at all -/
theorem C04_all_or_nothing (evs : List Ev) (s : TSt) (h : acceptAll evs = some s) (b : List E) :
    (b ∈ s.batches → ∀ e ∈ b, Kept s.d s.low e) ∧
    ((∀ b' ∈ s.batches, ∀ e ∈ b, e ∉ b') → ∀ e ∈ b, e ∉ surviving s.d) := by
  have ht := tinv_acceptAll h
  refine ⟨fun hb e he => ht.kept b hb e he, ?_⟩
  intro hnone e he hsurv
  obtain ⟨b', hb', heb'⟩ := ht.begun e hsurv
  exact hnone b' hb' e he heb'

/-- … and after recovery each write of a written transaction is visible or superseded by a newer write of its key -/
theorem C04_written_visible (mayContain : TableM → Bytes → Bool)
    (hbloom : ∀ t e, e ∈ t.entries → mayContain t e.key.user = true)
    (evs : List Ev) (s : TSt) (h : acceptAll evs = some s) (bs : Nat) (b : List E) (hb : b ∈ s.batches)
    (e : E) (he : e ∈ b) (r : Nat) (hr : s.low ≤ r) (her : e.key.ts ≤ r) :
    ∃ x, DB.get mayContain (recover bs s.d) e.key.user r = some x ∧ e.key.ts ≤ x.key.ts ∧ x.key.user = e.key.user := by
  have ht := tinv_acceptAll h
  obtain ⟨x, hx, h1, _, h3, _⟩ := recover_visible mayContain hbloom bs ht.inv ht.wf e (ht.kept b hb e he) r hr her
  exact ⟨x, hx, h1, h3⟩

/-- the pinned code wrote one wal record per key: a two-key transaction whose second append has not
    happened yet is on the disk with exactly one of its entries — the witness the repair removes -/
theorem C04_split_commit_witness :
    let e1 : E := ⟨⟨[97], 1⟩, [1], false, 1⟩
    let e2 : E := ⟨⟨[98], 1⟩, [2], false, 1⟩
    let d := apply (apply empty (.walCreate 1)) (.walAppend 1 [e1])
    e1 ∈ surviving d ∧ e2 ∉ surviving d := by
  decide

/-- the same for every execution of the modelled engine (`Prog`: all schedules of foreground and
    flusher, a kill at any point, any number of recoveries): a transaction's batch is written by
    one event, so at every reachable point it is on the disk (or shadowed) completely, or not at all -/
theorem C04_program_all_or_nothing {s : Prog.PSt} (h : Prog.ReachP s) (b : List E) :
    (b ∈ s.t.batches → ∀ e ∈ b, Kept s.t.d s.t.low e) ∧
    ((∀ b' ∈ s.t.batches, ∀ e ∈ b, e ∉ b') → ∀ e ∈ b, e ∉ surviving s.t.d) := by
  have ht := Prog.reachP_tinv h
  refine ⟨fun hb e he => ht.kept b hb e he, ?_⟩
  intro hnone e he hsurv
  obtain ⟨b', hb', heb'⟩ := ht.begun e hsurv
  exact hnone b' hb' e he heb'

/-- the program writes a transaction with exactly one wal write: the only program rule that emits a
    `commit` event takes the whole batch, and no other rule appends to a wal outside recovery's
    replay of records that already are on the disk -/
theorem C04_program_one_write {t : TSt} {m m' : Prog.Mem} {id : Nat} {b : List E}
    (h : Prog.act t m (.ev (.commit id b)) = some m') :
    m.c = .idle ∧ m.active = some id ∧ m'.c = .commit b false ∧ (b.map (·.key)).Nodup := by
  simp only [Prog.act] at h
  unfold Prog.actCommit at h
  split at h
  · rename_i a e0 rest hc hact
    split at h
    · rename_i hcond
      simp only [Option.some.injEq] at h; subst h
      exact ⟨hc, by rw [hact, hcond.1], rfl, hcond.2.2.2⟩
    · cases h
  · cases h


/-- the Go code itself (`DB.rawset`, translated from /repo/db.go on every run): the whole batch of a transaction is
    written (one `memtable.set` call: one wal batch) before anything else happens, and the memtable is rotated only
    after it, never in the middle of a batch -/
theorem C04_code_batch_then_rotation (size threshold : Nat) :
    (GenDB.rawset size threshold []).head? = some "memtable.set batch" ∧
    ((GenDB.rawset size threshold []).filter (· == "memtable.set batch")).length = 1 ∧
    ("memtable.freeze" ∈ GenDB.rawset size threshold [] ↔ threshold ≤ size) := by
  rw [DBTie.rawset_table]
  by_cases h : threshold ≤ size <;> simp [h] <;> decide

/-- the Go code itself (`WAL.Write`, translated from /repo on every run): whatever fails and however large the batch is, the
    wal file is written at most once per call, and that one write carries the records of ALL the entries of the batch in
    order — a batch never reaches the file in pieces, so a crash cannot leave a proper part of it behind as complete
    records; when nil is returned the write was followed by an fsync -/
theorem C04_code_one_write {ε β : Type} (enc : ε → List β) (len8 : Nat → List β) (nilFD sf : Bool) (mf : ε → Bool) (wf syf : Bool)
    (entries : List ε) :
    let r := GenWal.write enc len8 nilFD sf mf wf syf entries []
    (r.2.filter (fun e => e.1 == "write") = [] ∨
        r.2.filter (fun e => e.1 == "write") = [("write", WalTie.batchBytes enc len8 entries)]) ∧
      (r.1 = true → r.2 = [("w.mu.Lock", []), ("seek to the end", []), ("write", WalTie.batchBytes enc len8 entries), ("fsync", [])]) :=
  ⟨WalTie.write_once enc len8 nilFD sf mf wf syf entries, WalTie.write_ack enc len8 nilFD sf mf wf syf entries⟩

/-- non-vacuity: a batch of two entries, no failure -/
example : GenWal.write (fun (e : Nat) => [e, e]) (fun n => [100 + n]) false false (fun _ => false) false false [1, 2] [] =
    (true, [("w.mu.Lock", []), ("seek to the end", []), ("write", [102, 1, 1, 102, 2, 2]), ("fsync", [])]) := by decide

/-- the Go code itself (the statements of `Txn.Commit` that build the batch, translated on every run): the batch handed to
    `rawset` — one `memtable.set`, one `WAL.Write` — has exactly one entry for every pending write of the transaction, none
    left out and none added, all of them at the one commit timestamp -/
theorem C04_code_whole_batch {π : Type} (pkey : π → GenTxn.Key) (pval : π → List UInt8) (ptomb : π → Bool)
    (pw : List (GenTxn.Key × π)) (ts : Nat) :
    (GenTxn.commitBatch pkey pval ptomb pw ts).length = pw.length ∧
    (∀ kv ∈ pw, ((pkey kv.2, ts), pval kv.2, ptomb kv.2, ts) ∈ GenTxn.commitBatch pkey pval ptomb pw ts) ∧
    (∀ e ∈ GenTxn.commitBatch pkey pval ptomb pw ts, e.1.2 = ts ∧ e.2.2.2 = ts ∧
        ∃ kv ∈ pw, e = ((pkey kv.2, ts), pval kv.2, ptomb kv.2, ts)) := by
  rw [TxnTie.commitBatch_eq]
  refine ⟨by simp, fun kv h => List.mem_map.mpr ⟨kv, h, rfl⟩, fun e he => ?_⟩
  obtain ⟨kv, hkv, rfl⟩ := List.mem_map.mp he
  exact ⟨rfl, rfl, kv, hkv, rfl⟩

/-- the Go code itself (`memtable.set`, translated on every run): the batch `rawset` was given is passed to the wal in ONE
    `Write` call holding all of it (never in pieces — the seeded change C04-k wrote chunks of 32), after every entry went into
    the skiplist; with `C04_code_whole_batch`, `C04_code_batch_then_rotation` and `C04_code_one_write` this is the whole path
    of a transaction's writes from `Commit` to the one `write` of the wal file -/
theorem C04_code_one_wal_call {ε : Type} (es : List ε) :
    GenDB.memtableSet false false es [] = some (es.map (fun e => ("skiplist.Set", [e])) ++ [("wal.Write", es)]) ∧
    GenDB.memtableSet false true es [] = none := by
  constructor <;> rw [DBTie.memtableSet_table] <;> rfl

#print axioms C04_all_or_nothing
#print axioms C04_written_visible
#print axioms C04_split_commit_witness
#print axioms C04_program_all_or_nothing
#print axioms C04_program_one_write
#print axioms C04_code_batch_then_rotation
#print axioms C04_code_one_write
#print axioms C04_code_whole_batch
#print axioms C04_code_one_wal_call
end Props
