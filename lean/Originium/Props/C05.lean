import Originium.Model.SysProofs
import Originium.Model.TxnTie
/-! # C05 — a transaction reads from one fixed snapshot plus its own writes

`Sys.run steps` executes any interleaving of the fine-grained steps of any number of transactions
(`begin`, `waited`, `get`, `set`, `commitStart`, `apply`, `commitDone`, `discard`) with watermark
publications and background storage steps (rotation, flush, compaction with version discard). -/
namespace Props
open Key VKey LSM Sys

/-- what `Txn.Get` answers: the transaction's own pending write if there is one (update
    transactions), otherwise the store read at its read timestamp -/
def getResult (mayContain : TableM → Bytes → Bool) (s : Sys.St) (t : Oracle2.Txn) (k : Bytes) : Sys.Val :=
  match (if t.update then Oracle2.lookupW k t.writes else none) with
  | some v => v
  | none => Sys.storeRead mayContain s t.readTs k

/-- Every Get of an open transaction, in every reachable state of every interleaving, returns its
    own latest Set/Delete of the key if it made one, and otherwise the value of the key in the state
    produced by exactly the commits with timestamp `≤ readTs` (`specAt`) — commits of other
    transactions (complete or half way through), rotations, flushes, compactions and discarded old
    versions do not change it. -/
theorem C05_snapshot (mayContain : TableM → Bytes → Bool)
    (hbloom : ∀ t e, e ∈ t.entries → mayContain t e.key.user = true)
    (steps : List Sys.Step) (s : Sys.St) (hrun : Sys.run steps = some s)
    (i : Nat) (t : Oracle2.Txn) (ht : s.o.txns[i]? = some t) (hw : s.waited.getD i false = true)
    (hopen : t.doneRead = false) (k : Bytes) :
    getResult mayContain s t k =
      match (if t.update then Oracle2.lookupW k t.writes else none) with
      | some v => v
      | none => Oracle2.specAt s.o.all t.readTs k := by
  unfold getResult
  rw [storeRead_eq_spec mayContain hbloom (sinv_run hrun) i t ht hw hopen k]

/-- the snapshot is fixed: a value once read stays the value of that key at the transaction's read
    timestamp in every later state (no later commit, flush, compaction or GC changes it) -/
theorem C05_stable (steps : List Sys.Step) (s : Sys.St) (hrun : Sys.run steps = some s) :
    ∀ t ∈ s.o.txns, ∀ kv ∈ t.obs, kv.2 = Oracle2.specAt s.o.all t.readTs kv.1 :=
  (Oracle2.reads_serial (sinv_run hrun).reach).snap

/-- the snapshot consists of whole transactions and is a prefix of the commit order: it is the fold
    of exactly the commits with timestamp `≤ readTs`, each applied completely -/
theorem C05_prefix (all : List Oracle2.Commit) (r : Nat) (k : Bytes) :
    Oracle2.specAt all r k =
      (all.filter (fun c => decide (c.ts ≤ r))).foldl
        (fun acc c => match Oracle2.lookupW k c.writes with | some v => v | none => acc) none := by
  unfold Oracle2.specAt
  suffices h : ∀ acc : Oracle2.Val,
      all.foldl (fun acc c => if c.ts ≤ r then (match Oracle2.lookupW k c.writes with | some v => v | none => acc) else acc) acc
      = (all.filter (fun c => decide (c.ts ≤ r))).foldl
        (fun acc c => match Oracle2.lookupW k c.writes with | some v => v | none => acc) acc from h none
  induction all with
  | nil => intro acc; rfl
  | cons c rest ih =>
    intro acc
    simp only [List.foldl_cons, List.filter_cons]
    by_cases hc : c.ts ≤ r
    · simp only [hc, ↓reduceIte, decide_true, List.foldl_cons]; exact ih _
    · simp only [hc, ↓reduceIte, decide_false, Bool.false_eq_true]; exact ih _

/-- every transaction that committed before this one began is in its snapshot … -/
theorem C05_includes_earlier (s s' : Oracle2.St) (hr : Oracle2.Reach s) (u : Bool)
    (hs : Oracle2.step s (.begin u) = some s') :
    ∃ t, s'.txns.getLast? = some t ∧ ∀ c ∈ s.all, c.ts ≤ t.readTs := by
  simp only [Oracle2.step, Option.some.injEq] at hs
  subst hs
  refine ⟨{ readTs := s.nextTs - 1, update := u, reads := [], writes := [], doneRead := false, finished := false, obs := [], commitTs := none }, ?_, ?_⟩
  · simp
  · intro c hc
    have := (Oracle2.inv_reach hr).all_lt c hc
    show c.ts ≤ s.nextTs - 1
    omega

/-- … and none that commits after it began is -/
theorem C05_excludes_later (s s' : Oracle2.St) (hr : Oracle2.Reach s) (st : Oracle2.Step)
    (hs : Oracle2.step s st = some s') (t : Oracle2.Txn) (ht : t ∈ s.txns) :
    ∀ c ∈ s'.all, c ∉ s.all → t.readTs < c.ts := by
  intro c hc hnc
  rcases Oracle2.all_step st hs with ⟨h1, _⟩ | ⟨c', h1, h2, _⟩
  · rw [h1] at hc; exact absurd hc hnc
  · rw [h1] at hc
    rcases List.mem_append.mp hc with h | h
    · exact absurd h hnc
    · simp only [List.mem_singleton] at h
      rw [h, h2]
      exact (Oracle2.inv_reach hr).readTs_lt t ht

/-- version GC is safe: every compaction uses a watermark at or below the read timestamp of every open transaction -/
theorem C05_gc_safe (steps : List Sys.Step) (s s' : Sys.St) (hrun : Sys.run steps = some s)
    (pick : List Bool) (low bs : Nat) (hs : Sys.step s (.bg (.compact pick low bs)) = some s') :
    ∀ t ∈ s.o.txns, t.doneRead = false → low ≤ t.readTs := by
  intro t ht hopen
  have hinv := sinv_run hrun
  simp only [Sys.step] at hs
  split at hs
  · rename_i hle
    exact Nat.le_trans hle ((Oracle2.inv_reach hinv.reach).mark_le_open t ht hopen)
  · cases hs

/-- non-vacuity: a reader that began before a commit, with a flush and a GC compaction in between, is a run of the model -/
example : (Sys.run [.begin true, .waited 0, .set 0 [97] (some [1]), .commitStart 0, .apply, .commitDone,
    .begin false, .waited 1, .begin true, .waited 2, .set 2 [97] none, .commitStart 2, .apply, .commitDone,
    .bg .rotate, .bg (.flushAdd 4), .bg .flushRemove, .get 1 [97], .mark 1, .bg (.compact [true] 1 4), .get 1 [97]]).isSome = true := by
  decide


/-- the Go code itself (`oracle.readTs`, `Txn.Get`, `Txn.Discard`, translated from /repo on every run): Begin takes the
    snapshot `nextTs - 1`, registers it with the read mark while it holds the oracle lock and returns only after the
    commit mark has reached it (every commit at or below the snapshot is applied before the first read); a Get of a
    read-write transaction answers from its own write buffer first (a pending delete reads as absent) and otherwise goes
    to the store at exactly that snapshot; Discard releases the read mark once -/
theorem C05_code_snapshot_and_own_writes (next : Nat) (t : Oracle2.Txn) (k : List UInt8) (hk : k ≠ []) (reads : List (List UInt8)) :
    GenTxn.readTs next false [] = some (next - 1, ["Lock", "readMark.Begin readTs", "Unlock", "commitMark.WaitForMark readTs"]) ∧
    GenTxn.readTs next true [] = none ∧
    (GenTxn.get (!t.update) false k t.readTs (TxnTie.pendOf t.writes) reads).1 =
      (if t.update then
        match Oracle2.lookupW k t.writes with
        | some (some b) => GenTxn.R.direct b true
        | some none => GenTxn.R.direct [] false
        | none => GenTxn.R.search k t.readTs
       else GenTxn.R.search k t.readTs) ∧
    GenTxn.discard false [] = (true, ["oracle.doneRead"]) ∧ GenTxn.discard true [] = (true, []) := by
  refine ⟨by rw [TxnTie.readTs_table]; rfl, by rw [TxnTie.readTs_table]; rfl, ?_, by rw [TxnTie.discard_table]; rfl, by rw [TxnTie.discard_table]; rfl⟩
  rw [TxnTie.get_table t k hk]
  cases t.update with
  | false => rfl
  | true =>
    simp only [↓reduceIte]
    cases Oracle2.lookupW k t.writes with
    | none => rfl
    | some v => cases v <;> rfl

#print axioms C05_snapshot
#print axioms C05_stable
#print axioms C05_prefix
#print axioms C05_includes_earlier
#print axioms C05_excludes_later
#print axioms C05_gc_safe
#print axioms C05_code_snapshot_and_own_writes
end Props
