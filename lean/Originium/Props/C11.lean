import Originium.Model.Wal
import Originium.Model.Pool
import Originium.Model.CodecTie
import Originium.Model.TypesTie
/-! # C11 — on-disk encodings round-trip exactly and stay intact after the encoder returns

All layouts are written out byte for byte in `Model/Codec*.lean` and `Model/Wal.lean`; S2 compression
is the abstract pair of `Codec.S2` with the law `S2Law` (a reader decompresses a concatenation of
compressed chunks to the concatenation of the chunks). -/
namespace Props
open Codec

/-- data block: `Encode` succeeds exactly when every key and value fits the 16 bit length fields
    (otherwise the repaired code returns an error instead of truncating) … -/
theorem C11_data_guard (es : List Entry) :
    (encodeData es).isSome = true ↔ ∀ e ∈ es, e.key.length ≤ 65535 ∧ e.value.length ≤ 65535 :=
  encodeData_isSome es

/-- … and then decoding gives back exactly the entries: every key and value byte string (empty,
    binary, any shared prefix with the previous key), tombstone flag and version -/
theorem C11_data_roundtrip (z : S2) (hz : S2Law z) (es : List Entry) (b : Bytes) (h : encodeData es = some b)
    (hv : ∀ e ∈ es, e.version < 2 ^ 64) :
    (z.decomp (z.comp b)).bind (decData es.length []) = some es := by
  rw [hz.single]
  exact decData_encodeData es b h hv es.length (Nat.le_refl _)

theorem C11_index_roundtrip (z : S2) (hz : S2Law z) (i : Index) (h : IndexWF i) :
    (z.decomp (z.comp (encIndex i))).bind (decIndex i.entries.length) = some i := by
  rw [hz.single]
  exact decIndex_encIndex i h _ (Nat.le_refl _)

/-- the footer is exactly as long as recovery assumes (constants regenerated from the source) and round-trips -/
theorem C11_footer_roundtrip (f : Footer) (h1 : HandleWF f.metaH) (h2 : HandleWF f.indexH) (hm : f.magic = Consts.magic) :
    decFooter (encFooter f) = some f ∧ (encFooter f).length = Consts.footerSeekBack ∧
    (encFooter f).length = Consts.footerReadLen :=
  ⟨decFooter_encFooter f h1 h2 hm, (encFooter_length_consts f).1, (encFooter_length_consts f).2⟩

/-- a footer with another magic number is rejected -/
theorem C11_footer_magic (f : Footer) (h1 : HandleWF f.metaH) (h2 : HandleWF f.indexH)
    (hmg : f.magic < 2 ^ 64) (hm : f.magic ≠ Consts.magic) : decFooter (encFooter f) = none := by
  unfold decFooter encFooter
  have e : ∀ (x : Bytes), x = x ++ [] := fun x => (List.append_nil x).symm
  rw [e (encLE 8 f.magic)]
  simp only [List.append_assoc]
  rw [decLE_encLE 8 _ _ (by have := h1.1; omega)]; simp only [Option.bind_some]
  rw [decLE_encLE 8 _ _ (by have := h1.2; omega)]; simp only [Option.bind_some]
  rw [decLE_encLE 8 _ _ (by have := h2.1; omega)]; simp only [Option.bind_some]
  rw [decLE_encLE 8 _ _ (by have := h2.2; omega)]; simp only [Option.bind_some]
  rw [decLE_encLE 8 _ _ (by omega)]; simp only [Option.bind_some]
  rw [if_neg hm]

theorem C11_meta_roundtrip (m : Meta) (h1 : m.createdUnix < 2 ^ 64) (h2 : m.level < 2 ^ 64) :
    decMeta (encMeta m) = some m := decMeta_encMeta m h1 h2

/-- whole table, every block size / every split into blocks: what recovery parses out of the file
    `table.Build` produced is the index `Build` returned and exactly the entries in order -/
theorem C11_table_roundtrip (z : S2) (hz : S2Law z) (blocks : List (List Entry)) (m : Meta)
    (hw : BlocksWF blocks) (hm1 : m.createdUnix < 2 ^ 64) (hm2 : m.level < 2 ^ 64)
    (hsz : (buildFile z blocks m).length < 2 ^ 64) :
    parseFile z (blocks.flatten.length + blocks.length) (buildFile z blocks m)
      = some (tableIndex z blocks, blocks.flatten) :=
  parseFile_buildFile z hz blocks m hw hm1 hm2 hsz _ (by omega) (by omega)

/-- wal record sequences: reading what `Write` appended (any number of batches) gives back every entry -/
theorem C11_wal_roundtrip (batches : List (List Entry)) (hw : ∀ e ∈ batches.flatten, WalWF e)
    (hl : ∀ e ∈ batches.flatten, (thriftEntry e).length < 2 ^ 64) :
    readWal (batches.flatten.length + 1) (batches.map walBatch).flatten = some batches.flatten := by
  have : (batches.map walBatch).flatten = walBatch batches.flatten := by
    induction batches with
    | nil => rfl
    | cons b bs ih =>
      simp only [List.map_cons, List.flatten_cons, walBatch_append]
      rw [ih (fun e he => hw e (by simp [he])) (fun e he => hl e (by simp [he]))]
  rw [this]
  exact readWal_walBatch _ hw hl _ (by omega)

/-- a wal file cut anywhere reads as a prefix of what was written (used by C14) -/
theorem C11_wal_torn (es : List Entry) (hw : ∀ e ∈ es, WalWF e) (hl : ∀ e ∈ es, (thriftEntry e).length < 2 ^ 64) (n : Nat) :
    ∃ j, readWal (es.length + 1) ((walBatch es).take n) = some (es.take j) ∧
      (∀ i, (walBatch (es.take i)).length ≤ n → i ≤ es.length → i ≤ j) :=
  readWal_torn es hw hl n _ (by omega)

/-- second sentence, ownership model (partial: physical aliasing is a runtime fact): when every
    encoder returns a copy, no returned result is ever reachable through the pool again … -/
theorem C11_result_not_pooled (ops : List Pool.Op) (h : ∀ o ∈ ops, o = .encodeClone) : Pool.Safe (Pool.run ops) :=
  Pool.clone_runs_safe ops h

/-- … whereas returning the pooled buffer itself (the pinned code) hands the result's cell to the very next encoder -/
theorem C11_alias_witness : ¬ Pool.Safe (Pool.run [.encodeAlias]) ∧
    (Pool.get (Pool.run [.encodeAlias])).1 ∈ (Pool.run [.encodeAlias]).results := Pool.alias_unsafe

/-- non-vacuity: a two entry block with a shared prefix and an empty value meets the guard -/
example : (encodeData [⟨[107, 64, 49], [1], false, 1⟩, ⟨[107, 64, 50], [], true, 2⟩]).isSome = true := by decide

/-- the Go code itself (`Data.Encode`, translated from /repo on every run): it returns an error exactly when a key or a value
    does not fit its 16-bit length field, and otherwise bytes that decompress and decode (the model's decoder, which the codec
    suite compares with `Data.Decode` byte for byte) to exactly the entries it was given — every key and value byte string,
    any shared prefix with the previous key, tombstone flag and version -/
theorem C11_code_data_encode (z : S2) (hz : S2Law z) (es : List Entry) (hv : ∀ e ∈ es, e.version < 2 ^ 64) :
    ((GenCodec.encodeData z.comp es).isSome = true ↔ ∀ e ∈ es, e.key.length ≤ 65535 ∧ e.value.length ≤ 65535) ∧
    ∀ b, GenCodec.encodeData z.comp es = some b → (z.decomp b).bind (decData es.length []) = some es := by
  rw [CodecTie.encodeData_eq]
  refine ⟨by rw [Option.isSome_map]; exact encodeData_isSome es, ?_⟩
  intro b hb
  obtain ⟨raw, hraw, rfl⟩ := Option.map_eq_some_iff.mp hb
  exact C11_data_roundtrip z hz es raw hraw hv

/-- the Go code itself, both directions (`Data.Encode` and `Data.Decode`, translated from /repo on every run): decoding what the
    encoder returned gives back exactly the entries — keys (whatever prefix they share with the previous key), values,
    tombstone flags, versions — for every entry list whose keys and values fit the 16-bit length fields; a list with a larger
    key or value is refused by the encoder -/
theorem C11_code_data_roundtrip (z : S2) (hz : S2Law z) (es : List Entry) (hv : ∀ e ∈ es, e.version < 2 ^ 64) :
    (∀ b, GenCodec.encodeData z.comp es = some b → GenCodec.decodeData z.decomp b [] = some (es.map CodecTie.toT)) ∧
    ((∀ e ∈ es, e.key.length ≤ 65535 ∧ e.value.length ≤ 65535) → ∃ b, GenCodec.encodeData z.comp es = some b) := by
  refine ⟨fun b h => CodecTie.code_roundtrip z hz es hv b h, fun hw => ?_⟩
  have := (C11_code_data_encode z hz es hv).1.mpr hw
  exact Option.isSome_iff_exists.mp this

/-- the translated decoder is the model's decoder on every input (also corrupt ones; Go's `prevKey[:lcp]` panics when `lcp`
    exceeds the previous key, where the translation and the model take what is there — no encoder output does that) -/
theorem C11_code_data_decode (decomp : Bytes → Option Bytes) (data : Bytes) :
    GenCodec.decodeData decomp data [] =
      (decomp data).bind fun raw => (decData (raw.length + 1) [] raw).map fun es => es.map CodecTie.toT := by
  rw [CodecTie.decodeData_eq]; simp

/-- the Go code itself (`Index.Encode` and `Index.Decode`, translated from /repo on every run): the encoder refuses exactly the
    indexes with a start or end key beyond the 16-bit length field; what it returns the decoder turns back into the same data
    handle and the same entries (keys, offsets, lengths), for handles below 2^64 -/
theorem C11_code_index_roundtrip (z : S2) (hz : S2Law z) (off len : Nat) (es : List (Bytes × Bytes × Nat × Nat))
    (hw : IndexWF { dataBlock := ⟨off, len⟩, entries := es.map CodecTie.ofIT }) (o0 l0 : Nat) :
    ∃ b, GenCodec.encodeIndex z.comp off len es = some b ∧ GenCodec.decodeIndex z.decomp b o0 l0 [] = some ((off, len), es) := by
  have hall : es.all (fun e => decide (e.1.length ≤ 65535) && decide (e.2.1.length ≤ 65535)) = true := by
    rw [List.all_eq_true]
    intro e he
    have := hw.2 (CodecTie.ofIT e) (List.mem_map_of_mem he)
    simp only [IndexEntryWF, CodecTie.ofIT] at this
    simp only [Bool.and_eq_true, decide_eq_true_eq]
    omega
  have henc := CodecTie.encodeIndex_eq z.comp off len es
  rw [if_pos hall] at henc
  exact ⟨_, henc, CodecTie.index_code_roundtrip z hz off len es hw _ henc o0 l0⟩

/-- the Go code itself (`Footer.Encode` / `Footer.Decode`, translated on every run): a footer with the engine's magic number and
    handles below 2^64 round-trips; any other magic number is refused by the decoder -/
theorem C11_code_footer_roundtrip (mo ml io il : Nat) (h1 : HandleWF ⟨mo, ml⟩) (h2 : HandleWF ⟨io, il⟩) (f0 : Nat × Nat × Nat × Nat × Nat) :
    ∃ b, GenCodec.encodeFooter mo ml io il Consts.magic = some b ∧ b.length = 40 ∧
      GenCodec.decodeFooter b f0 = some (mo, ml, io, il, Consts.magic) := by
  refine ⟨_, CodecTie.encodeFooter_eq mo ml io il Consts.magic, encFooter_length _, ?_⟩
  rw [CodecTie.decodeFooter_eq, (C11_footer_roundtrip { metaH := ⟨mo, ml⟩, indexH := ⟨io, il⟩, magic := Consts.magic } h1 h2 rfl).1]
  rfl

/-- the Go code itself (`Meta.Encode` / `Meta.Decode`, translated on every run): creation time (a non-negative `time.Now().Unix()`)
    and level below 2^64 round-trip -/
theorem C11_code_meta_roundtrip (created level : Nat) (h1 : created < 2 ^ 64) (h2 : level < 2 ^ 64) (m0 : Nat × Nat) :
    ∃ b, GenCodec.encodeMeta created level = some b ∧ GenCodec.decodeMeta b m0 = some (created, level) := by
  refine ⟨_, CodecTie.encodeMeta_eq created level, ?_⟩
  rw [CodecTie.decodeMeta_eq, C11_meta_roundtrip { createdUnix := created, level := level } h1 h2]
  rfl

/-- The *translated* `utils.LCP` (`GenTypes.lcp`, regenerated from `/repo/utils/utils.go` on every run: `n := min(len(a), len(b))`,
the index loop with fuel) is the model's `lcp` on every pair of byte strings — so the prefix length the translated `Data.Encode`
stores is the one the round trip `C11_code_data_roundtrip` was proved for — and the key is rebuilt from the previous key:
the first `lcp` bytes of both agree. -/
theorem C11_code_lcp (a b : Bytes) :
    GenTypes.lcp a b = lcp a b ∧ b.take (GenTypes.lcp a b) = a.take (GenTypes.lcp a b) := by
  rw [TypesTie.lcp_eq]; exact ⟨rfl, lcp_take a b⟩

#print axioms C11_data_guard
#print axioms C11_data_roundtrip
#print axioms C11_code_data_encode
#print axioms C11_code_data_roundtrip
#print axioms C11_code_data_decode
#print axioms C11_code_index_roundtrip
#print axioms C11_code_footer_roundtrip
#print axioms C11_code_meta_roundtrip
#print axioms C11_index_roundtrip
#print axioms C11_footer_roundtrip
#print axioms C11_footer_magic
#print axioms C11_meta_roundtrip
#print axioms C11_table_roundtrip
#print axioms C11_wal_roundtrip
#print axioms C11_wal_torn
#print axioms C11_result_not_pooled
#print axioms C11_alias_witness
#print axioms C11_code_lcp
end Props
