import Originium.Model.SysProofs
import Originium.Model.TxnTie
/-! # C07 — Commit is refused exactly when a key it read was overwritten meanwhile -/
namespace Props
open Sys

/-- In every reachable state, for every open transaction: the conflict check fires if and only if
    some key it read from the store (reads served from its own write buffer are not recorded) was
    written by a transaction that committed after its snapshot was taken — whatever the clean-up
    of the committed-transaction list has removed in the meantime. -/
theorem C07_conflict_iff (s : Oracle2.St) (hr : Oracle2.Reach s) (t : Oracle2.Txn) (ht : t ∈ s.txns)
    (hopen : t.doneRead = false) :
    Oracle2.hasConflict s.recent t = true ↔
      ∃ c ∈ s.all, t.readTs < c.ts ∧ ∃ k ∈ t.reads, k ∈ Oracle2.wkeys c :=
  Oracle2.conflict_iff hr ht hopen

/-- the Commit step itself: a transaction that has written something is refused (nothing is
    appended to the history, the timestamp counter does not move) iff such a key exists -/
theorem C07_refused_iff (s s' : Oracle2.St) (hr : Oracle2.Reach s) (i : Nat) (t : Oracle2.Txn)
    (ht : s.txns[i]? = some t) (hfin : t.finished = false) (hw : t.writes ≠ [])
    (hs : Oracle2.step s (.commit i) = some s') :
    (s'.nextTs = s.nextTs ∧ s'.all = s.all) ↔
      ∃ c ∈ s.all, t.readTs < c.ts ∧ ∃ k ∈ t.reads, k ∈ Oracle2.wkeys c := by
  have hmem : t ∈ s.txns := List.mem_of_getElem? ht
  have hopen : t.doneRead = false := by
    cases hd : t.doneRead with
    | false => rfl
    | true =>
      have := (Oracle2.reads_serial hr).done_fin t hmem hd
      rw [hfin] at this; cases this
  rw [← Oracle2.conflict_iff hr hmem hopen]
  simp only [Oracle2.step, ht, hfin, Bool.false_eq_true, ↓reduceIte] at hs
  have hwe : t.writes.isEmpty = false := by
    cases hh : t.writes with
    | nil => exact absurd hh hw
    | cons a b => rfl
  simp only [hwe, Bool.false_eq_true, ↓reduceIte] at hs
  cases hc : Oracle2.hasConflict s.recent t with
  | true =>
    simp only [hc, ↓reduceIte, Option.some.injEq] at hs
    subst hs
    simp
  | false =>
    simp only [hc, Bool.false_eq_true, ↓reduceIte, Option.some.injEq] at hs
    subst hs
    simp

/-- read-only transactions, transactions that only write, and transactions that wrote nothing are
    never refused: with an empty read set the check is false; with an empty write buffer Commit
    returns before the check -/
theorem C07_always_commit (recent : List Oracle2.Commit) (t : Oracle2.Txn) (h : t.reads = []) :
    Oracle2.hasConflict recent t = false := by
  unfold Oracle2.hasConflict
  rw [h]
  simp

/-- a refused transaction applies nothing: neither the history, nor the timestamp counter, nor the storage change -/
theorem C07_refused_applies_nothing (s s' : Sys.St) (i : Nat) (hs : Sys.step s (.commitStart i) = some s')
    (href : s'.o.nextTs = s.o.nextTs) : s'.d = s.d ∧ s'.o.all = s.o.all ∧ s'.inflight = s.inflight := by
  simp only [Sys.step] at hs
  split at hs
  · split at hs
    · cases hs
    · cases ho : Oracle2.step s.o (.commit i) with
      | none => rw [ho] at hs; simp at hs
      | some o' =>
        rw [ho] at hs
        simp only [Option.map_some, Option.some.injEq] at hs
        split at hs
        · subst hs
          rcases Oracle2.all_step _ ho with ⟨ha, _⟩ | ⟨c, _, _, hn⟩
          · exact ⟨rfl, ha, rfl⟩
          · simp only at href; omega
        · rename_i hne
          subst hs
          exact absurd href hne
  · cases hs

/-- non-vacuity: T0 reads k, T1 overwrites k and commits, T0 writes and is refused -/
example :
    (Sys.run [.begin true, .waited 0, .begin true, .waited 1, .get 0 [107], .set 1 [107] (some [2]), .commitStart 1, .apply, .commitDone,
      .set 0 [120] (some [1]), .commitStart 0]).map (fun s => (s.o.nextTs, s.inflight.isSome)) = some (2, false) := by
  decide


/-! ### The Go code itself (definitions regenerated from `/repo` by `extract/gotrans.go` on every run)

`GenOracle.hasConflict`, `GenOracle.cleanUp`, `GenTxn.newCommitTs`, `GenTxn.get` and `GenTxn.commit` are the translated
bodies of `oracle.hasConflict`, `oracle.cleanUpCommittedTxns`, `oracle.newCommitTs`, `Txn.Get` and `Txn.Commit`. -/

/-- the translated `oracle.hasConflict`, run on the committed list of any reachable oracle state, answers true iff a key
    the transaction read from the store was written by a commit after its snapshot -/
theorem C07_code_conflict_iff (s : Oracle2.St) (hr : Oracle2.Reach s) (t : Oracle2.Txn) (ht : t ∈ s.txns)
    (hopen : t.doneRead = false) :
    GenOracle.hasConflict t.reads t.readTs (s.recent.map OracleTie.ctOf) = true ↔
      ∃ c ∈ s.all, t.readTs < c.ts ∧ ∃ k ∈ t.reads, k ∈ Oracle2.wkeys c := by
  rw [OracleTie.hasConflict_tie]
  exact Oracle2.conflict_iff hr ht hopen

/-- the translated `oracle.cleanUpCommittedTxns`: panics (`none`) only if the read watermark went backwards, is a no-op
    when it did not move, and otherwise drops exactly the commits at or below it (`Oracle2.cleanup`) -/
theorem C07_code_cleanup (mark last : Nat) (recent : List Oracle2.Commit) :
    GenOracle.cleanUp mark last (recent.map OracleTie.ctOf) =
      if mark < last then none
      else if mark = last then some (last, recent.map OracleTie.ctOf)
      else some (mark, (Oracle2.cleanup recent mark).map OracleTie.ctOf) :=
  OracleTie.cleanUp_tie mark last recent

/-- the translated `oracle.newCommitTs` is the oracle part of the model's commit step: on a conflict nothing but the lock
    happens; otherwise the read mark is released, the list cleaned, the timestamp taken, announced and recorded -/
theorem C07_code_newCommitTs (t : Oracle2.Txn) (recent : List Oracle2.Commit) (mark next last : Nat)
    (hmono : last ≤ mark) (hkept : ∀ c ∈ recent, last < c.ts) :
    GenTxn.newCommitTs t.reads t.readTs (t.writes.map (·.1)) false mark next last (recent.map OracleTie.ctOf) [] =
      if Oracle2.hasConflict recent t then
        some (0, true, false, next, last, recent.map OracleTie.ctOf, ["Lock", "defer Unlock"])
      else
        some (next, false, true, next + 1, mark,
              (Oracle2.cleanup recent mark ++ [({ ts := next, writes := t.writes } : Oracle2.Commit)]).map OracleTie.ctOf,
              ["Lock", "defer Unlock", "readMark.Done readTs", "commitMark.Begin ts"]) :=
  TxnTie.newCommitTs_tie t recent mark next last hmono hkept

/-- the translated `Txn.Get` records a read exactly when the model does: in a read-write transaction, for a key that is
    not in its own write buffer -/
theorem C07_code_get_records (t : Oracle2.Txn) (k : List UInt8) (hk : k ≠ []) (reads : List (List UInt8)) :
    (GenTxn.get (!t.update) false k t.readTs (TxnTie.pendOf t.writes) reads).2 =
      if t.update && !(t.writes.map (·.1)).contains k then reads ++ [k] else reads :=
  TxnTie.get_records_iff t k hk reads

/-- the translated `Txn.Commit` applies its batch iff the transaction is open, has written something, the DB is open and
    the oracle reported no conflict: a refused transaction applies nothing -/
theorem C07_code_refused_applies_nothing (disc : Bool) (p : List (List UInt8 × GenTxn.Ent)) (closed : Bool) (ts : Nat) (conflict : Bool) :
    ("rawset" ∈ (GenTxn.commit disc p closed ts conflict []).2 ↔ (disc = false ∧ p ≠ [] ∧ closed = false ∧ conflict = false)) ∧
    (conflict = true → disc = false → p ≠ [] → closed = false → (GenTxn.commit disc p closed ts conflict []).1 = .ErrConflictTxn) := by
  refine ⟨TxnTie.commit_applies_iff disc p closed ts conflict, ?_⟩
  intro hc hd hp hcl
  rw [TxnTie.commit_table]
  simp [hc, hd, hp, hcl]

/-- non-vacuity: the translated check on a concrete list — read at 3, a commit at 3 (not a conflict) and one at 4 -/
example : GenOracle.hasConflict [[1]] 3 [(3, [[1]]), (4, [[2]])] = false ∧ GenOracle.hasConflict [[1]] 3 [(3, [[9]]), (4, [[1]])] = true := by
  decide

#print axioms C07_conflict_iff
#print axioms C07_refused_iff
#print axioms C07_always_commit
#print axioms C07_refused_applies_nothing
#print axioms C07_code_conflict_iff
#print axioms C07_code_cleanup
#print axioms C07_code_newCommitTs
#print axioms C07_code_get_records
#print axioms C07_code_refused_applies_nothing
end Props
