import Originium.Model.SysProofs
/-! # C07 — Commit is refused exactly when a key it read was overwritten meanwhile -/
namespace Props
open Sys

/-- In every reachable state, for every open transaction: the conflict check fires if and only if
    some key it read from the store (reads served from its own write buffer are not recorded) was
    written by a transaction that committed after its snapshot was taken — whatever the clean-up
    of the committed-transaction list has removed in the meantime. -/
theorem C07_conflict_iff (s : Oracle2.St) (hr : Oracle2.Reach s) (t : Oracle2.Txn) (ht : t ∈ s.txns)
    (hopen : t.doneRead = false) :
    Oracle2.hasConflict s.recent t = true ↔
      ∃ c ∈ s.all, t.readTs < c.ts ∧ ∃ k ∈ t.reads, k ∈ Oracle2.wkeys c :=
  Oracle2.conflict_iff hr ht hopen

/-- the Commit step itself: a transaction that has written something is refused (nothing is
    appended to the history, the timestamp counter does not move) iff such a key exists -/
theorem C07_refused_iff (s s' : Oracle2.St) (hr : Oracle2.Reach s) (i : Nat) (t : Oracle2.Txn)
    (ht : s.txns[i]? = some t) (hfin : t.finished = false) (hw : t.writes ≠ [])
    (hs : Oracle2.step s (.commit i) = some s') :
    (s'.nextTs = s.nextTs ∧ s'.all = s.all) ↔
      ∃ c ∈ s.all, t.readTs < c.ts ∧ ∃ k ∈ t.reads, k ∈ Oracle2.wkeys c := by
  have hmem : t ∈ s.txns := List.mem_of_getElem? ht
  have hopen : t.doneRead = false := by
    cases hd : t.doneRead with
    | false => rfl
    | true =>
      have := (Oracle2.reads_serial hr).done_fin t hmem hd
      rw [hfin] at this; cases this
  rw [← Oracle2.conflict_iff hr hmem hopen]
  simp only [Oracle2.step, ht, hfin, Bool.false_eq_true, ↓reduceIte] at hs
  have hwe : t.writes.isEmpty = false := by
    cases hh : t.writes with
    | nil => exact absurd hh hw
    | cons a b => rfl
  simp only [hwe, Bool.false_eq_true, ↓reduceIte] at hs
  cases hc : Oracle2.hasConflict s.recent t with
  | true =>
    simp only [hc, ↓reduceIte, Option.some.injEq] at hs
    subst hs
    simp
  | false =>
    simp only [hc, Bool.false_eq_true, ↓reduceIte, Option.some.injEq] at hs
    subst hs
    simp

/-- read-only transactions, transactions that only write, and transactions that wrote nothing are
    never refused: with an empty read set the check is false; with an empty write buffer Commit
    returns before the check -/
theorem C07_always_commit (recent : List Oracle2.Commit) (t : Oracle2.Txn) (h : t.reads = []) :
    Oracle2.hasConflict recent t = false := by
  unfold Oracle2.hasConflict
  rw [h]
  simp

/-- a refused transaction applies nothing: neither the history, nor the timestamp counter, nor the storage change -/
theorem C07_refused_applies_nothing (s s' : Sys.St) (i : Nat) (hs : Sys.step s (.commitStart i) = some s')
    (href : s'.o.nextTs = s.o.nextTs) : s'.d = s.d ∧ s'.o.all = s.o.all ∧ s'.inflight = s.inflight := by
  simp only [Sys.step] at hs
  split at hs
  · split at hs
    · cases hs
    · cases ho : Oracle2.step s.o (.commit i) with
      | none => rw [ho] at hs; simp at hs
      | some o' =>
        rw [ho] at hs
        simp only [Option.map_some, Option.some.injEq] at hs
        split at hs
        · subst hs
          rcases Oracle2.all_step _ ho with ⟨ha, _⟩ | ⟨c, _, _, hn⟩
          · exact ⟨rfl, ha, rfl⟩
          · simp only at href; omega
        · rename_i hne
          subst hs
          exact absurd href hne
  · cases hs

/-- non-vacuity: T0 reads k, T1 overwrites k and commits, T0 writes and is refused -/
example :
    (Sys.run [.begin true, .waited 0, .begin true, .waited 1, .get 0 [107], .set 1 [107] (some [2]), .commitStart 1, .apply, .commitDone,
      .set 0 [120] (some [1]), .commitStart 0]).map (fun s => (s.o.nextTs, s.inflight.isSome)) = some (2, false) := by
  decide

#print axioms C07_conflict_iff
#print axioms C07_refused_iff
#print axioms C07_always_commit
#print axioms C07_refused_applies_nothing
end Props
