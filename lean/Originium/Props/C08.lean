import Originium.Model.Oracle3
import Originium.Model.ConstsTie
import Originium.Model.TxnTie
/-! # C08 — discarded, refused and failed transactions leave no trace; misuse is answered with the documented error -/
namespace Props
open Sys

/-- the steps of a transaction other than a successful commit — Begin, Get, Set, Delete, Discard,
    a refused or empty Commit — change neither the storage nor the commit history nor the timestamp
    counter: its writes live only in its private buffer -/
theorem C08_no_effect (s s' : Sys.St) (st : Sys.Step) (hs : Sys.step s st = some s')
    (hkind : match st with
      | .begin _ | .waited _ | .get _ _ | .set _ _ _ | .discard _ => True
      | .commitStart _ => s'.o.nextTs = s.o.nextTs
      | _ => False) :
    s'.d = s.d ∧ s'.o.all = s.o.all ∧ s'.o.nextTs = s.o.nextTs := by
  have frame : ∀ (ost : Oracle2.Step) (o' : Oracle2.St), Oracle2.step s.o ost = some o' →
      (∀ i, ost ≠ .commit i) → o'.all = s.o.all ∧ o'.nextTs = s.o.nextTs := by
    intro ost o' ho hnc
    rcases Oracle2.all_step ost ho with ⟨h1, h2⟩ | ⟨c, _, _, hn⟩
    · exact ⟨h1, h2⟩
    · exfalso
      cases ost with
      | commit i => exact hnc i rfl
      | begin u => simp only [Oracle2.step, Option.some.injEq] at ho; subst ho; simp at hn
      | get i k =>
        simp only [Oracle2.step] at ho
        split at ho
        · split at ho
          · cases ho
          · split at ho
            · simp only [Option.some.injEq] at ho; subst ho; simp at hn
            · split at ho
              · simp only [Option.some.injEq] at ho; subst ho; simp at hn
              · simp only [Option.some.injEq] at ho; subst ho; simp at hn
        · cases ho
      | set i k v =>
        simp only [Oracle2.step] at ho
        split at ho
        · split at ho
          · cases ho
          · simp only [Option.some.injEq] at ho; subst ho; simp at hn
        · cases ho
      | discard i =>
        simp only [Oracle2.step] at ho
        split at ho
        · simp only [Option.some.injEq] at ho; subst ho; simp at hn
        · cases ho
      | mark v =>
        simp only [Oracle2.step] at ho
        split at ho
        · simp only [Option.some.injEq] at ho; subst ho; simp at hn
        · cases ho
  cases st with
  | begin u =>
    simp only [Sys.step] at hs
    cases ho : Oracle2.step s.o (.begin u) with
    | none => rw [ho] at hs; simp at hs
    | some o' =>
      rw [ho] at hs; simp only [Option.map_some, Option.some.injEq] at hs; subst hs
      exact ⟨rfl, frame _ o' ho (by intro i h; cases h)⟩
  | waited i =>
    simp only [Sys.step] at hs
    split at hs
    · split at hs
      · simp only [Option.some.injEq] at hs; subst hs; exact ⟨rfl, rfl, rfl⟩
      · cases hs
    · cases hs
  | get i k =>
    simp only [Sys.step] at hs
    split at hs
    · cases ho : Oracle2.step s.o (.get i k) with
      | none => rw [ho] at hs; simp at hs
      | some o' =>
        rw [ho] at hs; simp only [Option.map_some, Option.some.injEq] at hs; subst hs
        exact ⟨rfl, frame _ o' ho (by intro i h; cases h)⟩
    · cases hs
  | set i k v =>
    simp only [Sys.step] at hs
    split at hs
    · cases ho : Oracle2.step s.o (.set i k v) with
      | none => rw [ho] at hs; simp at hs
      | some o' =>
        rw [ho] at hs; simp only [Option.map_some, Option.some.injEq] at hs; subst hs
        exact ⟨rfl, frame _ o' ho (by intro i h; cases h)⟩
    · cases hs
  | discard i =>
    simp only [Sys.step] at hs
    cases ho : Oracle2.step s.o (.discard i) with
    | none => rw [ho] at hs; simp at hs
    | some o' =>
      rw [ho] at hs; simp only [Option.map_some, Option.some.injEq] at hs; subst hs
      exact ⟨rfl, frame _ o' ho (by intro i h; cases h)⟩
  | commitStart i =>
    simp only at hkind
    have := C07_refused_applies_nothing_aux s s' i hs hkind
    exact ⟨this.1, this.2, hkind⟩
  | apply => simp at hkind
  | commitDone => simp at hkind
  | mark v => simp at hkind
  | bg b => simp at hkind
where
  C07_refused_applies_nothing_aux (s s' : Sys.St) (i : Nat) (hs : Sys.step s (.commitStart i) = some s')
      (href : s'.o.nextTs = s.o.nextTs) : s'.d = s.d ∧ s'.o.all = s.o.all := by
    simp only [Sys.step] at hs
    split at hs
    · split at hs
      · cases hs
      · cases ho : Oracle2.step s.o (.commit i) with
        | none => rw [ho] at hs; simp at hs
        | some o' =>
          rw [ho] at hs
          simp only [Option.map_some, Option.some.injEq] at hs
          split at hs
          · subst hs
            rcases Oracle2.all_step _ ho with ⟨ha, _⟩ | ⟨c, _, _, hn⟩
            · exact ⟨rfl, ha⟩
            · simp only at href; omega
          · rename_i hne
            subst hs
            exact absurd href hne
    · cases hs

/-- every commit any transaction can ever observe (the MVCC map is a function of the history) was
    made by a transaction whose Commit succeeded, with exactly its pending writes: the writes of a
    discarded, refused or abandoned transaction are in no reachable history — neither immediately
    nor after flushes, compactions (they only move entries of the history) and restarts -/
theorem C08_history_only_committed (steps : List Sys.Step) (s : Sys.St) (hrun : Sys.run steps = some s) :
    ∀ c ∈ s.o.all, ∃ t ∈ s.o.txns, t.commitTs = some c.ts ∧ t.writes = c.writes ∧ t.finished = true :=
  Oracle2.produced_reach (sinv_run hrun).reach

/-- … and the storage holds nothing but entries of that history -/
theorem C08_storage_only_history (steps : List Sys.Step) (s : Sys.St) (hrun : Sys.run steps = some s) :
    ∀ e ∈ DB.present s.d, e ∈ Sys.entriesOf s.o.all := by
  intro e he
  have hinv := sinv_run hrun
  have hc := hinv.dinv.sub e he
  have hh := hinv.hist
  cases hi : s.inflight with
  | none => rw [hi] at hh; simp only at hh; rw [← hh.1]; exact hc
  | some p =>
    obtain ⟨ts, ws⟩ := p
    cases ha : s.applied with
    | true => rw [hi, ha] at hh; simp only at hh; rw [← hh.1]; exact hc
    | false =>
      rw [hi, ha] at hh; simp only at hh
      obtain ⟨all', c, hall, _, _, hcom, _, _⟩ := hh
      rw [hall, Sys.entriesOf_append]
      exact List.mem_append.mpr (Or.inl (by rw [← hcom]; exact hc))

/-! ### misuse: the documented error, and no effect (the error branches perform no step) -/

theorem C08_write_in_readonly (mk mv : Nat) (t : Oracle2.Txn) (k v : List UInt8) (h : t.update = false) :
    apiSet mk mv t k v = .readOnly := by simp [apiSet, h]

theorem C08_use_after_finish (mk mv : Nat) (t : Oracle2.Txn) (k v : List UInt8) (hu : t.update = true)
    (h : t.finished = true) : apiSet mk mv t k v = .discarded ∧ apiCommitPre false t = some .discarded := by
  simp [apiSet, apiCommitPre, hu, h]

theorem C08_empty_key (mk mv : Nat) (t : Oracle2.Txn) (v : List UInt8) (hu : t.update = true) (h : t.finished = false) :
    apiSet mk mv t [] v = .emptyKey := by simp [apiSet, hu, h]

theorem C08_oversize (t : Oracle2.Txn) (k v : List UInt8) (hu : t.update = true) (h : t.finished = false) (hk : k ≠ []) :
    (Consts.maxKeySize < k.length → apiSet Consts.maxKeySize Consts.maxValueSize t k v = .keyTooLarge) ∧
    (k.length ≤ Consts.maxKeySize → Consts.maxValueSize < v.length →
      apiSet Consts.maxKeySize Consts.maxValueSize t k v = .valueTooLarge) := by
  have hke : k.isEmpty = false := by cases k <;> simp_all
  constructor
  · intro h1; simp [apiSet, hu, h, hke, h1]
  · intro h1 h2
    have : ¬ Consts.maxKeySize < k.length := by omega
    simp [apiSet, hu, h, hke, this, h2]

theorem C08_after_close (t : Oracle2.Txn) (hf : t.finished = false) (hw : t.writes ≠ []) :
    apiViewUpdate true = some .closed ∧ apiCommitPre true t = some .closed := by
  have : t.writes.isEmpty = false := by cases h : t.writes <;> simp_all
  simp [apiViewUpdate, apiCommitPre, hf, this]

/-- a well-formed Set is accepted: the size limits are exactly the ones that keep every stored key and value encodable -/
theorem C08_accepts (t : Oracle2.Txn) (k v : List UInt8) (hu : t.update = true) (h : t.finished = false) (hk : k ≠ [])
    (h1 : k.length ≤ Consts.maxKeySize) (h2 : v.length ≤ Consts.maxValueSize) :
    apiSet Consts.maxKeySize Consts.maxValueSize t k v = .ok := by
  have hke : k.isEmpty = false := by cases k <;> simp_all
  have a : ¬ Consts.maxKeySize < k.length := by omega
  have b : ¬ Consts.maxValueSize < v.length := by omega
  simp [apiSet, hu, h, hke, a, b]


/-! ### The Go code itself (definitions regenerated from `/repo` by `extract/gotrans.go` on every run) -/

/-- the translated `Txn.modify` (Set / Delete / SetEntry) answers the model's `apiSet` error, and touches the private
    buffers only when it answers nil: then the write becomes the newest pending binding; otherwise nothing changes -/
theorem C08_code_modify (t : Oracle2.Txn) (k v : List UInt8) (tomb : Bool) (mk mv : Nat) (w : List (List UInt8 × Unit))
    (p : List (List UInt8 × GenTxn.Ent)) :
    let r := GenTxn.modify (!t.update) t.finished k v tomb mk mv w p
    TxnTie.errOf r.1 = Sys.apiSet mk mv t k v ∧
    (r.1 = .nil → r.2 = ((k, ()) :: w, (k, (v, tomb)) :: p)) ∧ (r.1 ≠ .nil → r.2 = (w, p)) :=
  ⟨TxnTie.modify_err t k v tomb mk mv w p, TxnTie.modify_effect (!t.update) t.finished k v tomb mk mv w p⟩

/-- misuse of the translated code: Get on a finished transaction or with an empty key answers `(nil, false)` and records
    nothing; Commit on a finished transaction answers ErrDiscardedTxn with no effect at all; View and Update on a closed
    DB answer ErrDBClosed without calling the closure or beginning a transaction -/
theorem C08_code_misuse (ro disc : Bool) (k : List UInt8) (ts : Nat) (p : List (List UInt8 × GenTxn.Ent)) (reads : List (List UInt8))
    (closed conflict : Bool) (fnRes c : GenTxn.E) :
    ((disc = true ∨ k = []) → GenTxn.get ro disc k ts p reads = (.direct [] false, reads)) ∧
    GenTxn.commit true p closed ts conflict [] = (.ErrDiscardedTxn, []) ∧
    GenTxn.view true fnRes c [] = (.ErrDBClosed, []) ∧ GenTxn.update true fnRes c [] = (.ErrDBClosed, []) := by
  refine ⟨TxnTie.get_misuse ro disc k ts p reads, ?_, ?_, ?_⟩
  · rw [TxnTie.commit_table]; simp
  · rw [TxnTie.view_table]; simp
  · rw [TxnTie.update_table]; simp

/-- the translated `DB.Update`: Commit is called iff the closure returned nil; with an error the error is returned and
    only the deferred Discard follows; the translated `Txn.Commit` of a transaction that wrote nothing, or on a closed
    DB, never reaches the oracle or the store -/
theorem C08_code_update_commit (closed : Bool) (fnRes c : GenTxn.E) (t : Oracle2.Txn) (ts : Nat) (conflict : Bool) :
    GenTxn.update closed fnRes c [] =
      (if closed then (.ErrDBClosed, [])
       else if fnRes = .nil then (c, ["Begin true", "defer Discard", "fn", "Commit"])
       else (fnRes, ["Begin true", "defer Discard", "fn"])) ∧
    (match Sys.apiCommitPre closed t with
     | some e => TxnTie.errOf (GenTxn.commit t.finished (TxnTie.pendOf t.writes) closed ts conflict []).1 = e ∧
                 "rawset" ∉ (GenTxn.commit t.finished (TxnTie.pendOf t.writes) closed ts conflict []).2 ∧
                 "newCommitTs" ∉ (GenTxn.commit t.finished (TxnTie.pendOf t.writes) closed ts conflict []).2
     | none => "newCommitTs" ∈ (GenTxn.commit t.finished (TxnTie.pendOf t.writes) closed ts conflict []).2) :=
  ⟨TxnTie.update_table closed fnRes c, TxnTie.commit_pre t closed ts conflict⟩

#print axioms C08_no_effect
#print axioms C08_history_only_committed
#print axioms C08_storage_only_history
#print axioms C08_write_in_readonly
#print axioms C08_use_after_finish
#print axioms C08_empty_key
#print axioms C08_oversize
#print axioms C08_after_close
#print axioms C08_accepts
#print axioms C08_code_modify
#print axioms C08_code_misuse
#print axioms C08_code_update_commit
end Props
