#!/usr/bin/env python3
"""Writes MANIFEST.json from checkconf.PROPS and manifest_texts.TEXTS (keeps the manifest consistent with the checks)."""
import json, os, subprocess, sys
sys.path.insert(0, os.path.dirname(os.path.abspath(__file__)))
from checkconf import PROPS
from manifest_texts import TEXTS, NOT_YET

ALL = ["C%02d" % i for i in range(1, 18)]
hooks = subprocess.run(["git", "-C", "/repo", "log", "--format=%H %s"], capture_output=True, text=True).stdout.strip().split("\n")
hook_commits = [l.split()[0] for l in hooks if l.split(" ", 1)[1].startswith("verif hooks")]

checks = []
for pid in ALL:
    if pid not in PROPS:
        continue
    t = TEXTS[pid]
    checks.append({
        "property_id": pid,
        "quick_cmd": "./check %s quick" % pid,
        "thorough_cmd": "./check %s thorough" % pid,
        "evidence_file": "/verif/evidence/%s.json" % pid,
        "replay_cmd_template": "./check --replay {path}",
        "engine": "lean4-proof+correspondence",
        "level_claimed": {"category": PROPS[pid].get("level", "proof"), "text": t["text"], "design_ref": t.get("design_ref", "DESIGN.md section 5, " + pid)},
        "level_note": t["note"],
        "technique": t.get("technique", "Lean 4 theorem over an executable model + differential correspondence check against the Go code"),
    })
man = {
    "version": 1,
    "setup_cmd": "./setup.sh",
    "hooks": {
        "guard": "verif",
        "enable": "go build -tags verif (harness module /verif/harness with replace => /repo); hook calls go through pkg/vhook whose functions are empty without the tag",
        "baseline_off_cmd": "cd /repo && GOFLAGS=-mod=mod go test -json -vet=off -count=1 -timeout 25m ./...",
        "source_commits": hook_commits,
        "add_only": True,
    },
    "engines": [
        {"name": "lean4-proof+correspondence", "path": "/verif/lean, /verif/harness, /verif/extract, /verif/check",
         "serves_properties": [c["property_id"] for c in checks],
         "kind_free_text": "Lean 4 (core only) executable model + theorems per property (lean/Originium/Props/Cxx.lean); compiled driver executes the model; Go harness (build tag verif) runs the real code on generated operation sequences and diffs against the driver; go/ast extractor regenerates constants (Generated/Consts.lean) and the sync/fs skeleton on every run"},
    ],
    "checks": checks,
    "notes": "Every check rebuilds the harness from /repo's working tree, regenerates Generated/Consts.lean and the skeleton, rebuilds the property's Lean module, audits axioms, then runs the correspondence suites. See DESIGN.md.",
    "not_applicable": [{"property_id": p, "reason": NOT_YET.get(p, "not claimed")} for p in ALL if p not in PROPS],
}
json.dump(man, open(os.path.join(os.path.dirname(os.path.abspath(__file__)), "MANIFEST.json"), "w"), indent=1)
print("MANIFEST.json:", len(checks), "checks,", len(man["not_applicable"]), "not applicable")
