package main

import (
	"bytes"
	"fmt"
	"io"
	"math/rand"
	"os"
	"path/filepath"
	"runtime/debug"
	"strconv"
	"strings"
	"sync"
	"time"

	originium "github.com/B1NARY-GR0UP/originium"
	"github.com/B1NARY-GR0UP/originium/pkg/vhook"
	"github.com/B1NARY-GR0UP/originium/table"
	"github.com/B1NARY-GR0UP/originium/types"
)

// ---------- db : the public API with the background goroutine gated by the hooks ----------

// readTableFile decodes a table file the way levelManager.recover does (footer -> index -> data region)
func readTableFile(path string) ([]types.Entry, error) {
	b, err := os.ReadFile(path)
	if err != nil {
		return nil, err
	}
	if len(b) < 40 {
		return nil, io.ErrUnexpectedEOF
	}
	var f table.Footer
	if err := f.Decode(b[len(b)-40:]); err != nil {
		return nil, err
	}
	var idx table.Index
	if err := idx.Decode(b[f.IndexBlock.Offset : f.IndexBlock.Offset+f.IndexBlock.Length]); err != nil {
		return nil, err
	}
	var d table.Data
	if err := d.Decode(b[idx.DataBlock.Offset : idx.DataBlock.Offset+idx.DataBlock.Length]); err != nil {
		return nil, err
	}
	return d.Entries, nil
}

type dbRun struct {
	mu    sync.Mutex
	dops  []string
	res   []string
	db    *originium.DB
	dir   string
	bs    int
	gated bool // the flusher stops at every gate until released

	parked   bool
	release  chan struct{}
	progress chan struct{} // flusher parked at a gate, or went idle
	pending  int           // rotations handed over and not yet completely flushed

	lastMark      uint64
	pendingLow    uint64
	pendingTables map[string][]string // output table name -> input names (compaction) / nil (flush)
	closing       bool                // between close.drained and close.done: Close flushes the active memtable itself
	cur           int                 // transaction index of the Commit in progress
	commitLogged  bool
	txOffset      int // model numbering of transactions keeps counting across reopen

	pauseParked chan struct{} // op inflight: closed by the committer when it has its timestamp (hook commit.ts) …
	pauseResume chan struct{} // … where it waits for this one
}

func (r *dbRun) log(op, res string) {
	r.dops = append(r.dops, op)
	r.res = append(r.res, res)
}

func (r *dbRun) event(name string, args ...any) {
	switch name {
	case "flush.begin", "compact.check", "flush.remove":
		// gates of the run loop (no lock is held here)
		r.mu.Lock()
		if name == "flush.begin" && r.closing {
			// Close's own flush of the active memtable: in the model a rotation followed by a flush
			r.log("rotate", "ok")
		}
		if name == "flush.remove" {
			// logged when the removal happens, see flush.done
		}
		gated := r.gated && !r.closing
		if gated {
			r.parked = true
		}
		r.mu.Unlock()
		if gated {
			select {
			case r.progress <- struct{}{}:
			default:
			}
			// (the releaser has cleared r.parked under r.mu before sending: a parking is released exactly once)
			<-r.release
		}
	case "rotate":
		r.mu.Lock()
		r.pending++
		r.log("rotate", "ok")
		r.mu.Unlock()
	case "discard.low":
		r.mu.Lock()
		r.pendingLow = args[0].(uint64)
		r.mu.Unlock()
	case "table.flush":
		r.mu.Lock()
		r.pendingTables[args[0].(string)] = nil
		r.mu.Unlock()
	case "table.compact":
		r.mu.Lock()
		var ins []string
		for _, p := range args[1].([]string) {
			ins = append(ins, tableName(p))
		}
		r.pendingTables[args[0].(string)] = append([]string{fmt.Sprint(r.pendingLow)}, ins...)
		r.mu.Unlock()
	case "flush.added":
		if r.closing {
			r.mu.Lock()
			r.log("flushremove", "ok")
			r.mu.Unlock()
		}
	case "flush.done":
		r.mu.Lock()
		r.log("flushremove", "ok")
		r.pending--
		idle := r.pending == 0
		r.mu.Unlock()
		if idle {
			select {
			case r.progress <- struct{}{}:
			default:
			}
		}
	case "close.drained":
		r.mu.Lock()
		r.closing = true
		r.mu.Unlock()
	case "close.done":
		r.mu.Lock()
		r.closing = false
		r.mu.Unlock()
	case "commit.ts":
		r.mu.Lock()
		r.log(fmt.Sprintf("commit %d", r.curTxn()), fmt.Sprintf("ok %d", args[0].(uint64)))
		r.commitLogged = true
		pp, pr := r.pauseParked, r.pauseResume
		r.pauseParked, r.pauseResume = nil, nil
		r.mu.Unlock()
		if pp != nil {
			// the commit is in flight: timestamp assigned (commitMark begun), nothing applied yet
			close(pp)
			<-pr
		}
	case "commit.conflict":
		r.mu.Lock()
		r.log(fmt.Sprintf("commit %d", r.curTxn()), "conflict")
		r.commitLogged = true
		r.mu.Unlock()
	}
}

// fsDone: a table appeared under its final name: read it back and log the step with its content
func (r *dbRun) fsDone(op, path string, n int) {
	if op != "rename" || !strings.HasSuffix(path, ".db") {
		return
	}
	r.mu.Lock()
	defer r.mu.Unlock()
	info, ok := r.pendingTables[path]
	if !ok {
		return
	}
	delete(r.pendingTables, path)
	es, err := readTableFile(path)
	content := tableName(path) + ":" + showEntries(es)
	if err != nil {
		content = tableName(path) + ":unreadable:" + err.Error()
	}
	if info == nil {
		r.log(fmt.Sprintf("flushadd %s %d", tableName(path), r.bs), "~"+content)
		return
	}
	low, _ := strconv.ParseUint(info[0], 10, 64)
	if low > r.lastMark {
		// the compaction observed this value of readMark.DoneUntil: an observation of the watermark
		r.lastMark = low
		r.log(fmt.Sprintf("mark %d", low), "ok")
	}
	r.log(fmt.Sprintf("compact %s %s %d %d", tableName(path), strings.Join(info[1:], ","), low, r.bs), "~"+content)
}

func (r *dbRun) curTxn() int { return r.cur }

// call runs an API call on a helper goroutine; if it blocks (the flush queue is full) the flusher is released
func (r *dbRun) call(f func()) {
	done := make(chan struct{})
	var panicked any
	go func() {
		defer close(done)
		defer func() {
			if p := recover(); p != nil {
				panicked = fmt.Sprintf("panic in API call: %v\n%s", p, debug.Stack())
			}
		}()
		f()
	}()
	start := time.Now()
	for {
		select {
		case <-done:
			if panicked != nil {
				panic(panicked)
			}
			return
		case <-time.After(2 * time.Millisecond):
			r.unpark()
			if time.Since(start) > 20*time.Second {
				panic("HANG: an API call did not return within 20 s\n" + allStacks())
			}
		}
	}
}

// unpark releases the flusher if it is parked at a gate: the parking is claimed under the lock, so the send below is
// always matched by the flusher's receive and two releasers can never both wait for the same parking
func (r *dbRun) unpark() bool {
	r.mu.Lock()
	p := r.parked
	r.parked = false
	r.mu.Unlock()
	if p {
		r.release <- struct{}{}
	}
	return p
}

// bg releases the flusher for one stage and waits until it parks again or goes idle
func (r *dbRun) bg() bool {
	r.mu.Lock()
	p := r.parked
	r.mu.Unlock()
	if !p {
		// maybe it has not reached its gate yet
		r.mu.Lock()
		pend := r.pending
		r.mu.Unlock()
		if pend == 0 {
			return false
		}
		select {
		case <-r.progress:
		case <-time.After(2 * time.Second):
			return false
		}
		r.mu.Lock()
		p = r.parked
		r.mu.Unlock()
		if !p {
			return false
		}
	}
	// drain stale progress notes, release, wait for the next one
	select {
	case <-r.progress:
	default:
	}
	if !r.unpark() {
		return false
	}
	select {
	case <-r.progress:
	case <-time.After(5 * time.Second):
	}
	return true
}

func (r *dbRun) syncMarks() {
	r.db.VerifSyncMarks()
	o := r.db.VerifOracle()
	r.mu.Lock()
	if o.ReadDoneUntil != r.lastMark {
		r.lastMark = o.ReadDoneUntil
		r.log(fmt.Sprintf("mark %d", o.ReadDoneUntil), "ok")
	}
	r.mu.Unlock()
}

func errName(err error) string {
	switch err {
	case nil:
		return "ok"
	case originium.ErrReadOnlyTxn:
		return "readonly"
	case originium.ErrDiscardedTxn:
		return "discarded"
	case originium.ErrEmptyKey:
		return "emptykey"
	case originium.ErrConflictTxn:
		return "conflict"
	case originium.ErrDBClosed:
		return "closed"
	case originium.ErrKeyTooLarge:
		return "keytoolarge"
	case originium.ErrValueTooLarge:
		return "valuetoolarge"
	}
	return "error:" + err.Error()
}

// parseCfg: "open memthr bs l0target ratio immbuf [skiplistMaxLevel skiplistP*100 fileMode(octal)]"; a zero field is left
// to Config.validate (the default value); the three optional fields default to 4, 0.5 and 0
func parseCfg(t []string) originium.Config {
	a := func(i int) int { v, _ := strconv.Atoi(t[i]); return v }
	cfg := originium.Config{SkipListMaxLevel: 4, SkipListP: 0.5, MemtableByteThreshold: a(1), DataBlockByteThreshold: a(2),
		L0TargetNum: a(3), LevelRatio: a(4), ImmutableBuffer: a(5)}
	if len(t) >= 9 {
		cfg.SkipListMaxLevel = a(6)
		cfg.SkipListP = float64(a(7)) / 100
		fm, _ := strconv.ParseUint(t[8], 8, 32)
		cfg.FileMode = os.FileMode(fm)
	}
	return cfg
}

// cfgBlockSize: the data block threshold the engine uses for a configuration (zero = the default)
func cfgBlockSize(cfg originium.Config) int {
	if cfg.DataBlockByteThreshold <= 0 {
		return originium.DefaultConfig.DataBlockByteThreshold
	}
	return cfg.DataBlockByteThreshold
}

// wideCfg: one configuration in four is drawn from the whole range of valid values, defaults (zero fields) included
func wideCfg(r *rand.Rand, narrow string) string {
	if r.Intn(4) != 0 {
		return narrow
	}
	pick := func(v ...int) int { return v[r.Intn(len(v))] }
	return fmt.Sprintf("%d %d %d %d %d %d %d %s", pick(0, 40, 60, 90, 150, 400, 2000, 1<<20), pick(0, 1, 10, 40, 200, 4096, 1<<16), pick(0, 1, 2, 3, 5, 6), pick(0, 1, 2, 3, 4, 10),
		pick(0, 1, 2, 3, 10), pick(0, 1, 2, 4, 9, 32), pick(0, 1, 50, 99, 100), []string{"0", "700", "755", "777"}[r.Intn(4)])
}

type dbRunExt struct {
	*dbRun
}

func dbExec(ops []string) (dops []string, res []string) {
	dir, err := os.MkdirTemp("", "vdb")
	if err != nil {
		panic(err)
	}
	defer os.RemoveAll(dir)
	r := &dbRun{dir: dir, release: make(chan struct{}), progress: make(chan struct{}, 1), pendingTables: map[string][]string{}}
	vhook.Install(&vhook.Handlers{Event: r.event, FSDone: r.fsDone})
	defer vhook.Install(nil)
	var txns []*originium.Txn
	var finished []bool
	var oldDBs []*originium.DB
	defer func() {
		for _, d := range oldDBs {
			d.VerifStopOracle()
		}
	}()
	defer func() {
		if r.db != nil && r.db.State() != originium.StateClosed {
			r.mu.Lock()
			r.gated = false
			r.mu.Unlock()
			r.unpark()
			// best effort, bounded: after a reported hang the engine may never finish these calls
			cd := make(chan struct{})
			go func() {
				defer close(cd)
				defer func() { _ = recover() }()
				for _, t := range txns {
					if t != nil {
						t.Discard()
					}
				}
				r.db.Close()
			}()
			select {
			case <-cd:
			case <-time.After(5 * time.Second):
			}
		}
		if r.db != nil {
			r.db.VerifStopOracle()
		}
	}()
	for _, op := range ops {
		t := strings.Split(op, " ")
		switch t[0] {
		case "get", "set", "del", "commit", "discard":
			// (a shrunk sequence may refer to a transaction whose begin was removed)
			if i, _ := strconv.Atoi(t[1]); i >= len(txns) {
				continue
			}
		}
		if r.db == nil && t[0] != "open" {
			continue
		}
		// a shrunk sequence may have lost its close / reopen partner: keep the usage well formed
		closed := r.db != nil && r.db.State() == originium.StateClosed
		switch {
		case t[0] == "open" && r.db != nil:
			continue
		case closed && t[0] != "reopen" && t[0] != "closedcalls":
			continue
		case !closed && (t[0] == "closedcalls" || t[0] == "reopen"):
			continue
		}
		switch t[0] {
		case "open":
			cfg := parseCfg(t)
			r.bs = cfgBlockSize(cfg)
			db, err := originium.Open(dir, cfg)
			if err != nil {
				panic(err)
			}
			r.db = db
			r.mu.Lock()
			r.gated = true
			r.log("open", "ok")
			r.mu.Unlock()
		case "begin":
			var tx *originium.Txn
			r.call(func() { tx = r.db.Begin(t[1] == "1") })
			txns = append(txns, tx)
			finished = append(finished, false)
			r.mu.Lock()
			r.log(op, strconv.FormatUint(tx.VerifReadTs(), 10))
			r.mu.Unlock()
			r.syncMarks()
		case "get":
			i, _ := strconv.Atoi(t[1])
			var v []byte
			var ok bool
			r.call(func() { v, ok = txns[i].Get(string(unhx(t[2]))) })
			out := "nf"
			if ok {
				out = hx(v)
			}
			r.mu.Lock()
			r.log(op, out)
			r.mu.Unlock()
		case "set":
			i, _ := strconv.Atoi(t[1])
			val := unhx(t[3])
			if val == nil {
				val = []byte{}
			}
			err := txns[i].Set(string(unhx(t[2])), val)
			r.mu.Lock()
			r.log(op, errName(err))
			r.mu.Unlock()
		case "del":
			i, _ := strconv.Atoi(t[1])
			err := txns[i].Delete(string(unhx(t[2])))
			r.mu.Lock()
			r.log(op, errName(err))
			r.mu.Unlock()
		case "commit":
			i, _ := strconv.Atoi(t[1])
			r.mu.Lock()
			r.cur = i
			r.commitLogged = false
			r.mu.Unlock()
			var err error
			r.call(func() { err = txns[i].Commit() })
			finished[i] = true
			r.mu.Lock()
			if !r.commitLogged {
				// nothing to write, already discarded, closed: no commit timestamp event
				r.log(op, errName(err))
			} else if err != nil && err != originium.ErrConflictTxn {
				r.log("commit-return", errName(err))
			}
			r.mu.Unlock()
			if r.db.State() != originium.StateClosed {
				r.syncMarks()
			}
		case "inflight":
			// inflight <txn> <key>: Commit of <txn> is held right after it got its timestamp; meanwhile another goroutine
			// begins a read-only transaction and reads <key>.  Begin must wait for the commit in flight (its read timestamp is
			// the commit's): it may not return before the commit is released.
			i, _ := strconv.Atoi(t[1])
			if i >= len(txns) || finished[i] {
				continue
			}
			key := string(unhx(t[2]))
			parked, resume := make(chan struct{}), make(chan struct{})
			r.mu.Lock()
			r.cur = i
			r.commitLogged = false
			r.pauseParked, r.pauseResume = parked, resume
			r.mu.Unlock()
			var cerr error
			cdone := make(chan struct{})
			go func() {
				defer close(cdone)
				defer func() { _ = recover() }()
				cerr = txns[i].Commit()
			}()
			inCommit := false
			select {
			case <-parked:
				inCommit = true
			case <-cdone:
			case <-time.After(20 * time.Second):
				panic("HANG: Commit did not reach its timestamp within 20 s\n" + allStacks())
			}
			r.mu.Lock()
			r.pauseParked, r.pauseResume = nil, nil
			r.mu.Unlock()
			var rtx *originium.Txn
			var v []byte
			var found bool
			early := false
			bdone := make(chan struct{})
			go func() {
				defer close(bdone)
				defer func() { _ = recover() }()
				rtx = r.db.Begin(false)
				v, found = rtx.Get(key)
			}()
			if inCommit {
				select {
				case <-bdone:
					early = true
				case <-time.After(40 * time.Millisecond):
				}
				close(resume)
			}
			r.call(func() { <-cdone; <-bdone })
			finished[i] = true
			r.mu.Lock()
			if !r.commitLogged {
				r.log(fmt.Sprintf("commit %d", i), errName(cerr))
			} else if cerr != nil && cerr != originium.ErrConflictTxn {
				r.log("commit-return", errName(cerr))
			}
			r.mu.Unlock()
			if rtx != nil {
				idx := len(txns)
				txns = append(txns, rtx)
				finished = append(finished, false)
				out := "nf"
				if found {
					out = hx(v)
				}
				r.mu.Lock()
				r.log("begin 0", strconv.FormatUint(rtx.VerifReadTs(), 10))
				r.log(fmt.Sprintf("get %d %s", idx, t[2]), out)
				if early {
					r.log("expectok Begin waits for the commit in flight", "SPEC-VIOLATION: Begin and Get of a read-only transaction returned while the commit that owns its read timestamp was still being applied")
				} else {
					r.log("expectok Begin waits for the commit in flight", "ok")
				}
				r.log(fmt.Sprintf("discard %d", idx), "ok")
				r.mu.Unlock()
				rtx.Discard()
				finished[idx] = true
			}
			if r.db.State() != originium.StateClosed {
				r.syncMarks()
			}
		case "inflight2":
			// inflight2 <txn i> <txn j>: Commit of i is held right after it got its timestamp; meanwhile another goroutine
			// commits j.  However the engine orders the two, afterwards every key both wrote reads as j's value (j's commit
			// timestamp is the larger one) — also when a memtable rotation falls between the two applications.
			i, _ := strconv.Atoi(t[1])
			j, _ := strconv.Atoi(t[2])
			if i >= len(txns) || j >= len(txns) || i == j || finished[i] || finished[j] {
				continue
			}
			parked, resume := make(chan struct{}), make(chan struct{})
			r.mu.Lock()
			r.cur = i
			r.commitLogged = false
			r.pauseParked, r.pauseResume = parked, resume
			r.mu.Unlock()
			var ierr, jerr error
			idone, jdone := make(chan struct{}), make(chan struct{})
			go func() {
				defer close(idone)
				defer func() { _ = recover() }()
				ierr = txns[i].Commit()
			}()
			inCommit := false
			select {
			case <-parked:
				inCommit = true
			case <-idone:
			case <-time.After(20 * time.Second):
				panic("HANG: Commit did not reach its timestamp within 20 s\n" + allStacks())
			}
			r.mu.Lock()
			r.pauseParked, r.pauseResume = nil, nil
			iLogged := r.commitLogged
			if !inCommit && !iLogged {
				r.log(fmt.Sprintf("commit %d", i), errName(ierr))
			}
			r.cur = j
			r.commitLogged = false
			r.mu.Unlock()
			go func() {
				defer close(jdone)
				defer func() { _ = recover() }()
				jerr = txns[j].Commit()
			}()
			if inCommit {
				select {
				case <-jdone:
				case <-time.After(40 * time.Millisecond):
				}
				close(resume)
			}
			r.call(func() { <-idone; <-jdone })
			finished[i], finished[j] = true, true
			r.mu.Lock()
			if !r.commitLogged {
				r.log(fmt.Sprintf("commit %d", j), errName(jerr))
			}
			r.mu.Unlock()
			if r.db.State() != originium.StateClosed {
				r.syncMarks()
			}
		case "upd":
			// upd <ok|err|panic> <key> <value>: DB.Update with a closure that sets one key and then returns nil, returns an
			// error, or panics; in the model: begin, set, then commit (ok) or discard (err, panic: the deferred Discard)
			mode := t[1]
			idx := len(txns)
			txns = append(txns, nil)
			finished = append(finished, true)
			r.mu.Lock()
			r.cur = idx
			r.commitLogged = false
			r.mu.Unlock()
			var uerr error
			func() {
				defer func() { _ = recover() }()
				r.call(func() {
					uerr = r.db.Update(func(tx *originium.Txn) error {
						txns[idx] = tx
						r.mu.Lock()
						r.log("begin 1", strconv.FormatUint(tx.VerifReadTs(), 10))
						r.mu.Unlock()
						val := unhx(t[3])
						if val == nil {
							val = []byte{}
						}
						e := tx.Set(string(unhx(t[2])), val)
						r.mu.Lock()
						r.log(fmt.Sprintf("set %d %s %s", idx, t[2], t[3]), errName(e))
						r.mu.Unlock()
						if len(t) > 4 {
							// a handle that escaped an earlier View / Update closure is used while this closure runs:
							// it stays finished (ErrDiscardedTxn, no effect), whatever the engine recycles internally
							if j, _ := strconv.Atoi(t[4]); j < idx && txns[j] != nil {
								e2 := txns[j].Set("a", []byte("late"))
								_, f2 := txns[j].Get("a")
								r.mu.Lock()
								r.log(fmt.Sprintf("set %d %s %s", j, hxs("a"), hxs("late")), errName(e2))
								if f2 {
									r.log("expectok a finished handle reads nothing", "SPEC-VIOLATION: Get on a finished transaction handle returned a value")
								} else {
									r.log("expectok a finished handle reads nothing", "ok")
								}
								r.mu.Unlock()
							}
						}
						switch mode {
						case "err":
							return fmt.Errorf("closure failed")
						case "panic":
							panic("closure panicked")
						}
						return nil
					})
				})
			}()
			r.mu.Lock()
			committed := r.commitLogged
			if mode == "ok" {
				if !committed {
					r.log(fmt.Sprintf("commit %d", idx), errName(uerr))
				}
			} else {
				if !committed {
					r.log(fmt.Sprintf("discard %d", idx), "ok")
					r.log("expectok failed Update leaves no trace", "ok")
				} else {
					r.log("expectok failed Update leaves no trace", "SPEC-VIOLATION: DB.Update whose closure "+map[string]string{"err": "returned an error", "panic": "panicked"}[mode]+" committed its writes")
				}
			}
			r.mu.Unlock()
			if txns[idx] == nil {
				// Update refused before calling the closure (closed DB): nothing happened in the model either
				txns = txns[:idx]
				finished = finished[:idx]
			}
			if r.db.State() != originium.StateClosed {
				r.syncMarks()
			}
		case "discard":
			i, _ := strconv.Atoi(t[1])
			r.mu.Lock()
			r.log(op, "ok")
			r.mu.Unlock()
			txns[i].Discard()
			finished[i] = true
			r.syncMarks()
		case "bg":
			r.bg()
		case "drain":
			for k := 0; k < 200 && r.bg(); k++ {
			}
		case "close":
			// every transaction handle is finished first (a Close racing open transactions belongs to C15)
			keep := -1
			if len(t) > 2 && t[1] == "keep" {
				// "close keep i": transaction i stays open across the Close (it is committed afterwards: "closedcalls i")
				keep, _ = strconv.Atoi(t[2])
			}
			for k, tx := range txns {
				if !finished[k] && k != keep {
					r.mu.Lock()
					r.log(fmt.Sprintf("discard %d", k), "ok")
					r.mu.Unlock()
					tx.Discard()
					finished[k] = true
				}
			}
			r.syncMarks()
			r.mu.Lock()
			r.gated = false
			r.mu.Unlock()
			r.unpark()
			// (under the watchdog: a Close that never returns is reported with the goroutine stacks)
			r.call(func() { r.db.Close() })
			r.mu.Lock()
			r.log("close", "ok")
			r.mu.Unlock()
		case "closedcalls":
			if len(t) > 1 {
				// "closedcalls i": a read-write transaction begun before Close commits after it — refused with ErrDBClosed — and
				// then Begin is called on the closed handle: it must return (a refused commit must not leave a commit
				// timestamp reserved that every later Begin waits for)
				i, _ := strconv.Atoi(t[1])
				if i < len(txns) && !finished[i] && txns[i].Set("zz-closed", []byte("x")) == nil {
					var err error
					r.call(func() { err = txns[i].Commit() })
					finished[i] = true
					var tb *originium.Txn
					r.call(func() { tb = r.db.Begin(false) })
					r.call(func() { tb.Discard() })
					r.mu.Lock()
					r.log("closedcall", errName(err))
					r.log("expectok Begin-returns-after-a-commit-refused-with-ErrDBClosed", "ok")
					r.mu.Unlock()
				}
				continue
			}
			// misuse after Close: View / Update answer ErrDBClosed and do nothing
			e1 := r.db.View(func(*originium.Txn) error { return nil })
			e2 := r.db.Update(func(tx *originium.Txn) error { return tx.Set("zz", []byte("x")) })
			r.mu.Lock()
			r.log("closedcall", errName(e1))
			r.log("closedcall", errName(e2))
			r.mu.Unlock()
		case "reopen":
			cfg := parseCfg(t)
			oldDBs = append(oldDBs, r.db)
			r.bs = cfgBlockSize(cfg)
			files, _ := filepath.Glob(filepath.Join(dir, "*"))
			var left []string
			for _, f := range files {
				if strings.HasSuffix(f, ".log") || strings.HasSuffix(f, ".tmp") {
					left = append(left, filepath.Base(f))
				}
			}
			db, err := originium.Open(dir, cfg)
			if err != nil {
				panic(err)
			}
			r.db = db
			o := db.VerifOracle()
			r.mu.Lock()
			r.gated = true
			r.pending = 0
			r.lastMark = o.NextTs - 1
			// Close must leave no wal and no temporary file behind
			if len(left) > 0 {
				r.log("closedcall", "leftover:"+strings.Join(left, ","))
			}
			r.log("opened", strconv.FormatUint(o.NextTs, 10))
			r.mu.Unlock()
			db.VerifSyncMarks()
		case "txbase":
		}
	}
	r.mu.Lock()
	dops, res = append([]string(nil), r.dops...), append([]string(nil), r.res...)
	r.mu.Unlock()
	return dops, res
}

// the generator keeps track of transaction indices: they restart at 0 after a reopen in the implementation,
// the model keeps counting, so the generator emits the model's numbering and Exec maps it (see dbExecMapped)
func dbGen(r *rand.Rand, n int, length int, withReopen bool) []Case {
	var cases []Case
	for c := 0; c < n; c++ {
		cfg := func() string {
			return wideCfg(r, fmt.Sprintf("%d %d %d %d %d", []int{40, 60, 90, 150, 400, 2000}[r.Intn(6)], []int{1, 10, 40, 200}[r.Intn(4)], 1+r.Intn(3), 1+r.Intn(3), r.Intn(4)))
		}
		ops := []string{"open " + cfg()}
		tags := map[string]bool{}
		nk := 3 + r.Intn(6)
		caseKeys = nil
		if c%9 == 4 {
			// a key universe made of pairs that collide in 32 bits of their hash (read one and the other, overwrite the other)
			p, q := collidingKeys[r.Intn(len(collidingKeys))], collidingKeys[r.Intn(len(collidingKeys))]
			caseKeys = []string{p[0], p[1], q[0], q[1]}
			tags["hash-colliding-keys"] = true
		} else if c%3 == 2 {
			// a universe drawn from all special keys, not the front of the list
			caseKeys = subsetKeys(r, nk)
		}
		type tx struct {
			idx    int
			update bool
			open   bool
		}
		var txs []*tx
		var closures []int // transactions that lived inside an Update closure (their handles escaped)
		nextIdx := 0
		begin := func(update bool) *tx {
			t := &tx{idx: nextIdx, update: update, open: true}
			nextIdx++
			txs = append(txs, t)
			ops = append(ops, fmt.Sprintf("begin %s", b01(update)))
			return t
		}
		openTxs := func() []*tx {
			var o []*tx
			for _, t := range txs {
				if t.open {
					o = append(o, t)
				}
			}
			return o
		}
		if tags["hash-colliding-keys"] {
			// the pattern the conflict check exists for, on colliding keys: T reads both keys of a pair, U overwrites the one read
			// second (then, in a second round, the one read first), T writes and commits: refused both times
			for round := 0; round < 2; round++ {
				a, b := caseKeys[2*round], caseKeys[2*round+1]
				if round == 1 {
					a, b = b, a
				}
				t := begin(true)
				ops = append(ops, fmt.Sprintf("get %d %s", t.idx, hxs(a)), fmt.Sprintf("get %d %s", t.idx, hxs(b)))
				u := begin(true)
				ops = append(ops, fmt.Sprintf("set %d %s %s", u.idx, hxs(b), hxs(fmt.Sprintf("u%d", round))), fmt.Sprintf("commit %d", u.idx))
				u.open = false
				ops = append(ops, fmt.Sprintf("set %d %s %s", t.idx, hxs("z"), hxs(fmt.Sprintf("t%d", round))), fmt.Sprintf("commit %d", t.idx))
				t.open = false
			}
		}
		if c%5 == 1 {
			// the window of the conflict check under a lagging read watermark: an old transaction keeps several committed
			// versions of a key on the oracle's list; T reads the key between two of them; the old transaction finishes, commits
			// that do not touch the key run the clean-up of the list; T then writes and commits: refused (the model decides)
			short := func(key string, n int) {
				t := begin(true)
				ops = append(ops, fmt.Sprintf("set %d %s %s", t.idx, hxs(key), hxs(fmt.Sprintf("w%d.%d", n, t.idx))), fmt.Sprintf("commit %d", t.idx))
				t.open = false
			}
			for round := 0; round < 1+r.Intn(2); round++ {
				k, o := pickKey(r, nk), pickKey(r, nk)
				old := begin(r.Intn(2) == 0)
				for j := 0; j < 1+r.Intn(2); j++ {
					short(k, round)
				}
				for j := 0; j < r.Intn(3); j++ {
					short(o, round)
				}
				t := begin(true)
				ops = append(ops, fmt.Sprintf("get %d %s", t.idx, hxs(k)))
				if r.Intn(2) == 0 {
					ops = append(ops, fmt.Sprintf("get %d %s", t.idx, hxs(o)))
				}
				for j := 0; j < 1+r.Intn(2); j++ {
					short(k, round)
				}
				for j := 0; j < r.Intn(2); j++ {
					short(o, round)
				}
				if old.update && r.Intn(2) == 0 {
					ops = append(ops, fmt.Sprintf("set %d %s %s", old.idx, hxs("old"), hxs("x")), fmt.Sprintf("commit %d", old.idx))
				} else {
					ops = append(ops, fmt.Sprintf("discard %d", old.idx))
				}
				old.open = false
				for j := 0; j < 1+r.Intn(3); j++ {
					short(fmt.Sprintf("other%d", j), round)
				}
				ops = append(ops, fmt.Sprintf("set %d %s %s", t.idx, hxs("z"), hxs("t")), fmt.Sprintf("commit %d", t.idx))
				t.open = false
			}
			tags["conflict-window-under-a-lagging-read-mark"] = true
			tags["concurrent-txns"] = true
		}
		if c%5 == 3 {
			// misuse of a finished handle next to a live transaction: B reads k; A commits a write of another key and is then
			// asked to Delete / Set k (refused); B writes and commits — accepted, the refused call left no trace in the
			// oracle's record of A (the model decides)
			for round := 0; round < 1+r.Intn(2); round++ {
				k, o := pickKey(r, nk), pickKey(r, nk)
				b := begin(true)
				ops = append(ops, fmt.Sprintf("get %d %s", b.idx, hxs(k)))
				a := begin(true)
				ops = append(ops, fmt.Sprintf("set %d %s %s", a.idx, hxs(o+"-other"), hxs(fmt.Sprintf("a%d", round))), fmt.Sprintf("commit %d", a.idx))
				a.open = false
				if r.Intn(2) == 0 {
					ops = append(ops, fmt.Sprintf("del %d %s", a.idx, hxs(k)))
				} else {
					ops = append(ops, fmt.Sprintf("set %d %s %s", a.idx, hxs(k), hxs("late")))
				}
				ops = append(ops, fmt.Sprintf("set %d %s %s", b.idx, hxs("z"), hxs(fmt.Sprintf("b%d", round))), fmt.Sprintf("commit %d", b.idx))
				b.open = false
			}
			tags["finished-txn-misuse"] = true
			tags["misuse-next-to-a-live-reader"] = true
			tags["concurrent-txns"] = true
		}
		for i := 0; i < length; i++ {
			x := r.Intn(100)
			ot := openTxs()
			switch {
			case x < 12 && len(ot) < 6:
				begin(r.Intn(4) > 0)
				if len(ot) >= 2 {
					tags["concurrent-txns"] = true
				}
			case x < 30 && len(ot) > 0:
				t := ot[r.Intn(len(ot))]
				ops = append(ops, fmt.Sprintf("get %d %s", t.idx, hxs(pickKey(r, nk))))
			case x < 55 && len(ot) > 0:
				t := ot[r.Intn(len(ot))]
				k := pickKey(r, nk)
				if r.Intn(60) == 0 {
					k = ""
				}
				if r.Intn(5) == 0 {
					ops = append(ops, fmt.Sprintf("del %d %s", t.idx, hxs(k)))
				} else {
					v := pickValue(r, i)
					if r.Intn(150) == 0 {
						v = bytes.Repeat([]byte{1}, 65536)
						tags["oversize"] = true
					}
					ops = append(ops, fmt.Sprintf("set %d %s %s", t.idx, hxs(k), hx(v)))
				}
			case (x == 80 || x == 56 || x == 57) && len(ot) > 1:
				// two commits at once: the first held at its timestamp while the second one runs; both write a common key
				var ups []*tx
				for _, t := range ot {
					if t.update {
						ups = append(ups, t)
					}
				}
				if len(ups) >= 2 {
					a, b := ups[r.Intn(len(ups))], ups[r.Intn(len(ups))]
					if a != b {
						k := pickKey(r, nk)
						ops = append(ops, fmt.Sprintf("set %d %s %s", a.idx, hxs(k), hxs(fmt.Sprintf("first%d", i))),
							fmt.Sprintf("set %d %s %s", b.idx, hxs(k), hx(bytes.Repeat([]byte{'s'}, 30+r.Intn(200)))),
							fmt.Sprintf("inflight2 %d %d", a.idx, b.idx))
						a.open, b.open = false, false
						for q := 0; q < 2; q++ {
							rd := begin(false)
							ops = append(ops, fmt.Sprintf("get %d %s", rd.idx, hxs(k)), fmt.Sprintf("discard %d", rd.idx))
							rd.open = false
							if q == 0 {
								ops = append(ops, "drain")
							}
						}
						tags["two-commits-at-once"] = true
					}
				}
			case x < 70 && len(ot) > 0:
				t := ot[r.Intn(len(ot))]
				ops = append(ops, fmt.Sprintf("commit %d", t.idx))
				t.open = false
			case x < 76 && len(ot) > 0:
				t := ot[r.Intn(len(ot))]
				ops = append(ops, fmt.Sprintf("discard %d", t.idx))
				t.open = false
				tags["discard"] = true
			case x < 80 && len(txs) > 0:
				// use of a finished transaction
				t := txs[r.Intn(len(txs))]
				if !t.open {
					switch r.Intn(5) {
					case 0:
						ops = append(ops, fmt.Sprintf("set %d %s %s", t.idx, hxs("a"), hxs("late")))
					case 1:
						ops = append(ops, fmt.Sprintf("get %d %s", t.idx, hxs("a")))
					case 2:
						ops = append(ops, fmt.Sprintf("commit %d", t.idx))
					case 3:
						// a Delete / Set on a finished handle, of a key the open transactions work with: refused, and without any
						// effect on them (their reads, their conflict checks)
						ops = append(ops, fmt.Sprintf("del %d %s", t.idx, hxs(pickKey(r, nk))))
					case 4:
						ops = append(ops, fmt.Sprintf("set %d %s %s", t.idx, hxs(pickKey(r, nk)), hxs("late")))
					}
					tags["finished-txn-misuse"] = true
				}
			case x < 81 && len(ot) > 0:
				// a reader beginning while a commit is in flight
				t := ot[r.Intn(len(ot))]
				ops = append(ops, fmt.Sprintf("inflight %d %s", t.idx, hxs(pickKey(r, nk))))
				t.open = false
				rd := &tx{idx: nextIdx, update: false, open: false}
				nextIdx++
				txs = append(txs, rd)
				tags["begin-during-commit"] = true
			case x < 83:
				// DB.Update with a closure that succeeds, fails or panics
				mode := []string{"ok", "err", "panic"}[r.Intn(3)]
				t := &tx{idx: nextIdx, update: true, open: false}
				nextIdx++
				stale := ""
				if len(closures) > 0 && r.Intn(2) == 0 {
					stale = fmt.Sprintf(" %d", closures[r.Intn(len(closures))])
					tags["stale-handle-inside-closure"] = true
				}
				closures = append(closures, t.idx)
				txs = append(txs, t)
				ops = append(ops, fmt.Sprintf("upd %s %s %s%s", mode, hxs(pickKey(r, nk)), hx(pickValue(r, i)), stale))
				tags["update-closure-"+mode] = true
			case x < 90:
				ops = append(ops, "bg")
			case x < 93:
				ops = append(ops, "drain")
			case x < 95 && withReopen:
				keep := -1
				for _, t := range ot {
					if t.update && r.Intn(2) == 0 {
						keep = t.idx
						break
					}
				}
				if keep >= 0 {
					ops = append(ops, fmt.Sprintf("close keep %d", keep))
				} else {
					ops = append(ops, "close")
				}
				if r.Intn(2) == 0 {
					ops = append(ops, "closedcalls")
				}
				if keep >= 0 {
					ops = append(ops, fmt.Sprintf("closedcalls %d", keep))
					tags["commit-and-begin-after-close"] = true
				}
				ops = append(ops, "reopen "+cfg())
				txs = nil // handles of the previous Open are not used any more
				tags["reopen"] = true
			default:
				// a short write transaction (the common case)
				t := begin(true)
				for j := 0; j < 1+r.Intn(3); j++ {
					if r.Intn(5) == 0 {
						ops = append(ops, fmt.Sprintf("del %d %s", t.idx, hxs(pickKey(r, nk))))
					} else {
						ops = append(ops, fmt.Sprintf("set %d %s %s", t.idx, hxs(pickKey(r, nk)), hx(pickValue(r, i))))
					}
				}
				ops = append(ops, fmt.Sprintf("commit %d", t.idx))
				t.open = false
			}
		}
		// final read-back of every key by a fresh reader, after the flusher is done
		ops = append(ops, "drain")
		t := begin(false)
		for k := 0; k < nk && k < len(userKeys); k++ {
			ops = append(ops, fmt.Sprintf("get %d %s", t.idx, hxs(userKeys[k])))
		}
		for _, k := range caseKeys {
			ops = append(ops, fmt.Sprintf("get %d %s", t.idx, hxs(k)))
		}
		ops = append(ops, fmt.Sprintf("discard %d", t.idx))
		var tl []string
		for t := range tags {
			tl = append(tl, t)
		}
		caseKeys = nil
		cases = append(cases, Case{Ops: ops, Tags: tl})
	}
	return cases
}

// dbGenManyTables: more than ten tables in one level (file names 0-10.db sort before 0-2.db), restarts in between
func dbGenManyTables(r *rand.Rand, n int) []Case {
	var cases []Case
	for c := 0; c < n; c++ {
		cfg := func() string {
			return fmt.Sprintf("%d %d %d %d %d", 1+r.Intn(40), []int{1, 10, 200}[r.Intn(3)], 12+r.Intn(10), 1+r.Intn(3), r.Intn(3))
		}
		ops := []string{"open " + cfg()}
		idx := 0
		write := func(cnt int) {
			for i := 0; i < cnt; i++ {
				ops = append(ops, "begin 1")
				ops = append(ops, fmt.Sprintf("set %d %s %s", idx, hxs(fmt.Sprintf("key%02d", r.Intn(30))), hxs(fmt.Sprintf("v%d", idx))))
				if r.Intn(3) == 0 {
					ops = append(ops, fmt.Sprintf("del %d %s", idx, hxs(fmt.Sprintf("key%02d", r.Intn(30)))))
				}
				ops = append(ops, fmt.Sprintf("commit %d", idx))
				idx++
				if r.Intn(2) == 0 {
					ops = append(ops, "drain")
				}
			}
		}
		readAll := func() {
			ops = append(ops, "drain", "begin 0")
			for k := 0; k < 30; k++ {
				ops = append(ops, fmt.Sprintf("get %d %s", idx, hxs(fmt.Sprintf("key%02d", k))))
			}
			ops = append(ops, fmt.Sprintf("discard %d", idx))
			idx++
		}
		write(11 + r.Intn(4))
		ops = append(ops, "drain", "close", "reopen "+cfg())
		write(1 + r.Intn(3))
		readAll()
		ops = append(ops, "close", "reopen "+cfg())
		write(r.Intn(3))
		readAll()
		cases = append(cases, Case{Ops: ops, Tags: []string{"more-than-10-tables-per-level", "reopen"}})
	}
	return cases
}
