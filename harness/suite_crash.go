package main

import (
	"bytes"
	"encoding/binary"
	"fmt"
	"io"
	"math/rand"
	"os"
	"path/filepath"
	"sort"
	"strconv"
	"strings"
	"sync"
	"time"

	originium "github.com/B1NARY-GR0UP/originium"
	"github.com/B1NARY-GR0UP/originium/pkg/vhook"
	"github.com/B1NARY-GR0UP/originium/types"
	"github.com/B1NARY-GR0UP/originium/utils"
)

// ---------- crash : file-system trace acceptance + crash images at every file-system operation ----------

type cTxn struct {
	idx    int
	writes map[string]string // key -> value ("\x00del" = delete)
	order  []string
	ts     uint64
}

const delMark = "\x00del"

type cImage struct {
	dir      string
	line     int // position in the transcript where the image line goes
	acked    int
	inflight *cTxn
	files    map[string][2]int64 // base name -> (synced length, current length)
	nextTs   uint64
}

type crashRun struct {
	mu   sync.Mutex
	fsMu sync.Mutex
	root string
	dir  string
	bs   int

	walIDs  map[string]int
	lens    map[string]int64
	synced  map[string]int64
	dops    []string
	res     []string
	lastLow uint64

	commitTs     uint64 // != 0 while a Commit is between commit.ts and commit.applied
	acked        []*cTxn
	inflight     *cTxn
	takeImages   bool
	images       []*cImage
	maxImages    int
	keys         []string
	pendingImage *cImage
	slowFlush    int
}

func copyDir(src, dst string) error {
	if err := os.MkdirAll(dst, 0755); err != nil {
		return err
	}
	ents, err := os.ReadDir(src)
	if err != nil {
		return err
	}
	for _, e := range ents {
		if e.IsDir() {
			continue
		}
		b, err := os.ReadFile(filepath.Join(src, e.Name()))
		if err != nil {
			return err
		}
		if err := os.WriteFile(filepath.Join(dst, e.Name()), b, 0644); err != nil {
			return err
		}
	}
	return nil
}

func tableNum(path string) int {
	base := filepath.Base(path)
	base = strings.TrimSuffix(base, ".tmp")
	base = strings.TrimSuffix(base, ".db")
	p := strings.Split(base, "-")
	l, _ := strconv.Atoi(p[0])
	i, _ := strconv.Atoi(p[1])
	return l*100000 + i
}

func (r *crashRun) walID(path string) int {
	b := filepath.Base(path)
	if id, ok := r.walIDs[b]; ok {
		return id
	}
	id := len(r.walIDs) + 1
	r.walIDs[b] = id
	return id
}

func (r *crashRun) log(op, res string) {
	r.dops = append(r.dops, op)
	r.res = append(r.res, res)
}

// decodeWalTail decodes the wal records in b (complete records only)
func decodeWalRecords(b []byte) []types.Entry {
	var es []types.Entry
	rd := bytes.NewReader(b)
	for rd.Len() >= 8 {
		var n int64
		binary.Read(rd, binary.LittleEndian, &n)
		if n < 0 || n > int64(rd.Len()) {
			break
		}
		data := make([]byte, n)
		io.ReadFull(rd, data)
		var e types.Entry
		if err := utils.TUnmarshal(data, &e); err != nil {
			break
		}
		es = append(es, e)
	}
	return es
}

func (r *crashRun) fs(op, path string, n int) {
	r.fsMu.Lock()
	r.mu.Lock()
	defer r.mu.Unlock()
	if r.takeImages && len(r.images) < r.maxImages {
		img := &cImage{dir: filepath.Join(r.root, fmt.Sprintf("img%d", len(r.images))), line: len(r.dops), acked: len(r.acked), inflight: r.inflight, files: map[string][2]int64{}}
		for f, l := range r.lens {
			img.files[f] = [2]int64{r.synced[f], l}
		}
		if err := copyDir(r.dir, img.dir); err == nil {
			r.images = append(r.images, img)
			// placeholder line, filled in when the image is examined
			r.log("image-placeholder", "")
		}
	}
}

func (r *crashRun) fsDone(op, path string, n int) {
	defer r.fsMu.Unlock()
	r.mu.Lock()
	defer r.mu.Unlock()
	base := filepath.Base(path)
	isWal := strings.HasSuffix(base, ".log")
	isTmp := strings.HasSuffix(base, ".tmp")
	switch op {
	case "create":
		r.lens[base], r.synced[base] = 0, 0
		if isWal {
			r.log(fmt.Sprintf("ev op walCreate %d", r.walID(path)), "~ok")
		} else if isTmp {
			r.log(fmt.Sprintf("ev op tmpCreate %d", tableNum(path)), "~ok")
		}
	case "write":
		old := r.lens[base]
		r.lens[base] = old + int64(n)
		if isWal {
			b, _ := os.ReadFile(path)
			var es []types.Entry
			if int64(len(b)) >= old+int64(n) {
				es = decodeWalRecords(b[old : old+int64(n)])
			}
			if r.commitTs != 0 {
				r.log(fmt.Sprintf("ev commit %d %s", r.walID(path), showEntries(es)), "~ok")
			} else {
				r.log(fmt.Sprintf("ev op walAppend %d %s", r.walID(path), showEntries(es)), "~ok")
			}
		} else if isTmp {
			es, err := readTableFile(path)
			if err != nil {
				r.log(fmt.Sprintf("ev op tmpWrite %d []", tableNum(path)), "~unreadable")
			} else {
				r.log(fmt.Sprintf("ev op tmpWrite %d %s", tableNum(path), showEntries(es)), "~ok")
			}
		}
	case "sync":
		r.synced[base] = r.lens[base]
		if isWal {
			r.log(fmt.Sprintf("ev op walSync %d", r.walID(path)), "~ok")
		} else if isTmp {
			r.log(fmt.Sprintf("ev op tmpSync %d", tableNum(path)), "~ok")
		}
	case "rename":
		// path is the final name
		tmp := base + ".tmp"
		r.lens[base], r.synced[base] = r.lens[tmp], r.synced[tmp]
		delete(r.lens, tmp)
		delete(r.synced, tmp)
		r.log(fmt.Sprintf("ev op publish %d", tableNum(path)), "~ok")
	case "remove":
		delete(r.lens, base)
		delete(r.synced, base)
		if isWal {
			r.log(fmt.Sprintf("ev op walRemove %d", r.walID(path)), "~ok")
		} else if isTmp {
			r.log(fmt.Sprintf("ev op tmpRemove %d", tableNum(path)), "~ok")
		} else {
			r.log(fmt.Sprintf("ev op tableRemove %d", tableNum(path)), "~ok")
		}
	}
}

func (r *crashRun) event(name string, args ...any) {
	r.mu.Lock()
	defer r.mu.Unlock()
	switch name {
	case "flush.begin":
		if r.slowFlush > 0 {
			// a slow flusher: the flush queue fills up, commits block on it, Close finds pending flushes
			r.mu.Unlock()
			time.Sleep(time.Duration(r.slowFlush) * time.Millisecond)
			r.mu.Lock()
		}
	case "commit.ts":
		r.commitTs = args[0].(uint64)
		if r.inflight != nil {
			r.inflight.ts = r.commitTs
		}
	case "commit.applied":
		r.commitTs = 0
	case "open.begin":
		// Open lists the directory: the older wal files are replayed in the lexical order of their names
		ents, _ := os.ReadDir(args[0].(string))
		var names []string
		for _, e := range ents {
			if strings.HasSuffix(e.Name(), ".log") {
				names = append(names, e.Name())
			}
		}
		sort.Strings(names)
		var ids []string
		for _, n := range names {
			ids = append(ids, strconv.Itoa(r.walID(n)))
		}
		o := "-"
		if len(ids) > 0 {
			o = strings.Join(ids, ",")
		}
		r.log("order "+o, "~ok")
	case "discard.low":
		// the bound this compaction discards with; logged with the plan below
		r.lastLow = args[0].(uint64)
	case "table.compact":
		// which tables are merged into which: the program model (DiskProg) follows the compaction from here
		var ins []string
		for _, f := range args[1].([]string) {
			ins = append(ins, strconv.Itoa(tableNum(f)))
		}
		insS := "-"
		if len(ins) > 0 {
			insS = strings.Join(ins, ",")
		}
		r.log(fmt.Sprintf("plan %s %d", insS, tableNum(args[0].(string))), "~ok")
		r.log(fmt.Sprintf("ev raise %d", r.lastLow), "~ok")
	}
}

func txnEntries(t *cTxn) string {
	var es []types.Entry
	for _, k := range t.order {
		v := t.writes[k]
		e := types.Entry{Key: types.KeyWithTs(k, t.ts), Value: []byte(v), Version: int64(t.ts)}
		if v == delMark {
			e.Value, e.Tombstone = []byte{}, true
		}
		es = append(es, e)
	}
	sort.Slice(es, func(i, j int) bool { return types.CompareKeys(es[i].Key, es[j].Key) < 0 })
	return showEntries(es)
}

// expected state after the first n acknowledged transactions
func ackedState(acked []*cTxn, n int) map[string]string {
	m := map[string]string{}
	for _, t := range acked[:n] {
		for k, v := range t.writes {
			if v == delMark {
				delete(m, k)
			} else {
				m[k] = v
			}
		}
	}
	return m
}

// openAndRead opens a copy of an image with the real Open and reads every key; a panic is reported
func openAndRead(dir string, cfg originium.Config, keys []string, then func(db *originium.DB) string) (reads map[string]string, problem string, nextTs uint64) {
	defer func() {
		if p := recover(); p != nil {
			problem = fmt.Sprintf("Open panicked: %v", p)
		}
	}()
	var db *originium.DB
	done := make(chan struct{})
	go func() {
		defer close(done)
		defer func() {
			if p := recover(); p != nil {
				problem = fmt.Sprintf("Open panicked: %v", p)
			}
		}()
		d, err := originium.Open(dir, cfg)
		if err != nil {
			problem = "Open failed: " + err.Error()
			return
		}
		db = d
	}()
	select {
	case <-done:
	case <-time.After(20 * time.Second):
		return nil, "Open did not return within 20 s", 0
	}
	if problem != "" || db == nil {
		return nil, problem, 0
	}
	nextTs = db.VerifOracle().NextTs
	reads = map[string]string{}
	db.View(func(tx *originium.Txn) error {
		for _, k := range keys {
			if v, ok := tx.Get(k); ok {
				reads[k] = string(v)
			}
		}
		return nil
	})
	if then != nil {
		if p := then(db); p != "" {
			problem = p
		}
	}
	db.Close()
	db.VerifStopOracle()
	return reads, problem, nextTs
}

func showReads(keys []string, reads map[string]string) string {
	var ss []string
	for _, k := range keys {
		if v, ok := reads[k]; ok {
			ss = append(ss, hxs(k)+"="+hxs(v))
		} else {
			ss = append(ss, hxs(k)+"=nf")
		}
	}
	return strings.Join(ss, ",")
}

func hexKeys(keys []string) string {
	var ss []string
	for _, k := range keys {
		ss = append(ss, hxs(k))
	}
	return strings.Join(ss, ",")
}

// checkImage compares what is visible with the acknowledged state (+ the in-flight transaction, all or nothing
// when atomic is required); returns "" or the violation
func checkVisible(reads map[string]string, acked []*cTxn, nAcked int, inflight *cTxn, keys []string, atomic bool) string {
	exp := ackedState(acked, nAcked)
	newCnt, oldCnt := 0, 0
	for _, k := range keys {
		got, gok := reads[k]
		want, wok := exp[k]
		if inflight != nil {
			if nv, touched := inflight.writes[k]; touched {
				isNew := (nv == delMark && !gok) || (nv != delMark && gok && got == nv)
				isOld := (gok == wok) && (!gok || got == want)
				if isNew && !isOld {
					newCnt++
				} else if isOld && !isNew {
					oldCnt++
				} else if !isNew && !isOld {
					return fmt.Sprintf("key %q reads %q (found=%v): neither the acknowledged value %q (found=%v) nor the in-flight value", k, got, gok, want, wok)
				}
				continue
			}
		}
		if gok != wok || (gok && got != want) {
			return fmt.Sprintf("key %q reads %q (found=%v), acknowledged state has %q (found=%v)", k, got, gok, want, wok)
		}
	}
	if atomic && newCnt > 0 && oldCnt > 0 {
		return fmt.Sprintf("the transaction that was committing is visible partially: %d of its keys new, %d old", newCnt, oldCnt)
	}
	return ""
}

func crashExec(ops []string) (dops []string, res []string) {
	root, err := os.MkdirTemp("", "vcrash")
	if err != nil {
		panic(err)
	}
	defer os.RemoveAll(root)
	r := &crashRun{root: root, dir: filepath.Join(root, "db"), walIDs: map[string]int{}, lens: map[string]int64{}, synced: map[string]int64{}}
	os.MkdirAll(r.dir, 0755)
	vhook.Install(&vhook.Handlers{FS: r.fs, FSDone: r.fsDone, Event: r.event})
	defer vhook.Install(nil)
	var db *originium.DB
	var cfg originium.Config
	nested, lossy := 0, 0
	r.log("reset", "ok")
	keyset := map[string]bool{}
	for _, op := range ops {
		t := strings.Split(op, " ")
		switch t[0] {
		case "open":
			// open memthr bs l0target ratio immbuf maxImages nested lossy slow [skiplistMaxLevel skiplistP*100 fileMode]
			cfg = parseCfg(t[:6])
			if len(t) >= 13 {
				cfg = parseCfg(append(append([]string{}, t[:6]...), t[10:13]...))
			}
			r.bs = cfgBlockSize(cfg)
			r.maxImages, _ = strconv.Atoi(t[6])
			nested, _ = strconv.Atoi(t[7])
			lossy, _ = strconv.Atoi(t[8])
			r.slowFlush, _ = strconv.Atoi(t[9])
			r.takeImages = true
			db, err = originium.Open(r.dir, cfg)
			if err != nil {
				panic(err)
			}
		case "txn":
			// txn k=v,k=-,...
			tx := &cTxn{idx: len(r.acked), writes: map[string]string{}}
			for _, kv := range strings.Split(t[1], ",") {
				p := strings.SplitN(kv, "=", 2)
				k := string(unhx(p[0]))
				keyset[k] = true
				v := delMark
				if p[1] == "PAD256" {
					// a value sized so that the wal record of this entry is a multiple of 256 bytes long (the low byte of its
					// little-endian length prefix is zero)
					ts := db.VerifOracle().NextTs
					probe := types.Entry{Key: types.KeyWithTs(k, ts), Value: bytes.Repeat([]byte{'p'}, 200), Version: int64(ts)}
					if enc, err := utils.TMarshal(&probe); err == nil {
						v = strings.Repeat("p", 200+(256-len(enc)%256)%256)
					} else {
						v = strings.Repeat("p", 200)
					}
				} else if p[1] != "-" {
					v = string(unhx(p[1]))
				}
				if _, ok := tx.writes[k]; !ok {
					tx.order = append(tx.order, k)
				}
				tx.writes[k] = v
			}
			r.mu.Lock()
			r.inflight = tx
			r.mu.Unlock()
			err := db.Update(func(x *originium.Txn) error {
				for _, k := range tx.order {
					if tx.writes[k] == delMark {
						x.Delete(k)
					} else {
						x.Set(k, []byte(tx.writes[k]))
					}
				}
				return nil
			})
			r.mu.Lock()
			r.inflight = nil
			if err == nil {
				r.acked = append(r.acked, tx)
				r.log("ev ack "+txnEntries(tx), "~ok")
			}
			r.mu.Unlock()
		case "sleep":
			time.Sleep(2 * time.Millisecond)
		case "reopen":
			closeWatched(db, "crash suite, reopen")
			db.VerifStopOracle()
			if len(t) >= 5 {
				// reopen with another configuration: memtable threshold, block size, L0 target, level ratio (zero = default);
				// the crash images of the whole workload are recovered with the last configuration
				a := func(i int) int { v, _ := strconv.Atoi(t[i]); return v }
				cfg.MemtableByteThreshold, cfg.DataBlockByteThreshold, cfg.L0TargetNum, cfg.LevelRatio = a(1), a(2), a(3), a(4)
				r.bs = cfgBlockSize(cfg)
			}
			db, err = originium.Open(r.dir, cfg)
			if err != nil {
				panic(err)
			}
		}
	}
	if db != nil {
		closeWatched(db, "crash suite, end of workload")
		db.VerifStopOracle()
	}
	r.mu.Lock()
	r.takeImages = false
	images := r.images
	r.mu.Unlock()
	vhook.Install(nil) // the databases opened on crash images below are not part of the trace
	var keys []string
	for k := range keyset {
		keys = append(keys, k)
	}
	sort.Strings(keys)
	hk := hexKeys(keys)
	// ---- examine every image: real Open vs the model's recovery, and vs the acknowledged state ----
	var extraOps, extraRes []string
	for i, img := range images {
		work := filepath.Join(root, "work")
		os.RemoveAll(work)
		copyDir(img.dir, work)
		sample := i%7 == 0
		reads, problem, _ := openAndRead(work, cfg, keys, func(d *originium.DB) string {
			if !sample {
				return ""
			}
			// the recovered store accepts and retains a further commit
			if err := d.Update(func(x *originium.Txn) error { return x.Set("zz-after", []byte("crash")) }); err != nil {
				return "commit after recovery failed: " + err.Error()
			}
			ok := false
			d.View(func(x *originium.Txn) error { v, f := x.Get("zz-after"); ok = f && string(v) == "crash"; return nil })
			if !ok {
				return "commit after recovery is not visible"
			}
			return ""
		})
		line := "image " + strconv.Itoa(r.bs) + " " + hk
		if problem != "" {
			r.dops[img.line], r.res[img.line] = line, problem
			continue
		}
		r.dops[img.line], r.res[img.line] = line, showReads(keys, reads)
		if v := checkVisible(reads, r.acked, img.acked, img.inflight, keys, true); v != "" {
			extraOps = append(extraOps, fmt.Sprintf("expectok image %d", i))
			extraRes = append(extraRes, "SPEC-VIOLATION at crash point "+strconv.Itoa(i)+": "+v)
		}
		// ---- lossy variants: cut unsynced tails (C14) ----
		if lossy > 0 {
			type cut struct {
				file string
				keep int64
			}
			var cuts [][]cut
			var all []cut
			for f, sl := range img.files {
				if sl[1] > sl[0] {
					all = append(all, cut{f, sl[0]})
					cuts = append(cuts, []cut{{f, sl[0]}}, []cut{{f, sl[0] + (sl[1]-sl[0])/2}}, []cut{{f, sl[1] - 1}})
					if strings.HasSuffix(f, ".log") {
						// a torn length prefix: 1 and 7 of its 8 bytes survive; the whole prefix but nothing of the body; one byte of it
						for _, d := range []int64{1, 7, 8, 9} {
							if sl[0]+d < sl[1] {
								cuts = append(cuts, []cut{{f, sl[0] + d}})
							}
						}
					}
				}
			}
			if len(all) > 1 {
				cuts = append(cuts, all)
			}
			if len(cuts) > lossy {
				// a different selection of the possible cuts at every crash point, so that all kinds are tried over a run
				st := (i * lossy) % len(cuts)
				cuts = append(append([][]cut{}, cuts[st:]...), cuts[:st]...)[:lossy]
			}
			for f, sl := range img.files {
				// always tried: one byte of a length prefix whose low byte is zero (the unsynced tail is one record of 256·m bytes)
				if strings.HasSuffix(f, ".log") && sl[1]-sl[0] > 8 && (sl[1]-sl[0]-8)%256 == 0 {
					cuts = append(cuts, []cut{{f, sl[0] + 1}})
				}
			}
			for _, cs := range cuts {
				os.RemoveAll(work)
				copyDir(img.dir, work)
				var spec []string
				for _, c := range cs {
					p := filepath.Join(work, c.file)
					b, err := os.ReadFile(p)
					if err != nil || int64(len(b)) < c.keep {
						continue
					}
					os.WriteFile(p, b[:c.keep], 0644)
					if strings.HasSuffix(c.file, ".log") {
						spec = append(spec, fmt.Sprintf("%d=%d", r.walIDs[c.file], len(decodeWalRecords(b[:c.keep]))))
					}
				}
				// after the recovery of the cut image: one more acknowledged commit, then the process dies again (the directory
				// as it is, with the store still open) — the commit made after the first recovery must survive the second
				second := filepath.Join(root, "second")
				os.RemoveAll(second)
				tookSecond := false
				// every file-system operation of this store passes a gate, so that the second crash image is taken between
				// two operations (the flusher may be working on what the recovery left behind)
				var gate sync.Mutex
				vhook.Install(&vhook.Handlers{FS: func(string, string, int) { gate.Lock() }, FSDone: func(string, string, int) { gate.Unlock() }})
				reads, problem, _ := openAndRead(work, cfg, keys, func(d *originium.DB) string {
					if err := d.Update(func(x *originium.Txn) error { return x.Set("zz-after-loss", []byte("second")) }); err != nil {
						return "commit after the recovery of a lossy image failed: " + err.Error()
					}
					gate.Lock()
					copyDir(work, second)
					gate.Unlock()
					tookSecond = true
					return ""
				})
				vhook.Install(nil)
				if problem == "" && tookSecond {
					reads2, problem2, _ := openAndRead(second, cfg, append(append([]string{}, keys...), "zz-after-loss"), nil)
					extraOps = append(extraOps, fmt.Sprintf("expectok lossy image %d %v, then a commit, a second crash and recovery", i, cs))
					switch {
					case problem2 != "":
						extraRes = append(extraRes, "SPEC-VIOLATION after unsynced tails were lost at crash point "+strconv.Itoa(i)+", a recovery, one acknowledged commit and a second crash: "+problem2)
					case reads2["zz-after-loss"] != "second":
						extraRes = append(extraRes, "SPEC-VIOLATION after unsynced tails were lost at crash point "+strconv.Itoa(i)+", a recovery and a second crash: the commit acknowledged after the first recovery is lost")
					default:
						if v := checkVisible(reads2, r.acked, img.acked, img.inflight, keys, false); v != "" {
							extraRes = append(extraRes, "SPEC-VIOLATION after unsynced tails were lost at crash point "+strconv.Itoa(i)+", a recovery, a commit and a second crash: "+v)
						} else {
							extraRes = append(extraRes, "ok")
						}
					}
				}
				os.RemoveAll(second)
				cs2 := "-"
				if len(spec) > 0 {
					cs2 = strings.Join(spec, ",")
				}
				// the cut images branch off the trace at this crash point: replayed after the main transcript
				extraOps = append(extraOps, fmt.Sprintf("CUT %d cutimage %d %s %s", img.line, r.bs, cs2, hk))
				if problem != "" {
					extraRes = append(extraRes, problem)
					continue
				}
				extraRes = append(extraRes, showReads(keys, reads))
				if v := checkVisible(reads, r.acked, img.acked, img.inflight, keys, false); v != "" {
					extraOps = append(extraOps, fmt.Sprintf("expectok lossy image %d %v", i, cs))
					extraRes = append(extraRes, "SPEC-VIOLATION with unsynced tails lost at crash point "+strconv.Itoa(i)+": "+v)
				}
			}
		}
		// ---- the recovery of this image as a trace of its own (every third image, and every nested one):
		//      Open's file-system events continue the trace after a crash, through rule book and program model;
		//      nested crash: crash again inside this image's recovery ----
		isNested := nested > 0 && i%nested == 0
		if isNested || i%3 == 1 {
			os.RemoveAll(work)
			copyDir(img.dir, work)
			ids := map[string]int{}
			for k, v := range r.walIDs {
				ids[k] = v
			}
			sub := &crashRun{root: filepath.Join(root, "nested"), dir: work, walIDs: ids, lens: map[string]int64{}, synced: map[string]int64{}, takeImages: isNested, maxImages: 40}
			os.MkdirAll(sub.root, 0755)
			vhook.Install(&vhook.Handlers{FS: sub.fs, FSDone: sub.fsDone, Event: sub.event})
			_, _, _ = openAndRead(work, cfg, keys, nil)
			vhook.Install(nil)
			br := []string{"crash"}
			for _, o := range sub.dops {
				if strings.HasPrefix(o, "ev ") || strings.HasPrefix(o, "plan ") || strings.HasPrefix(o, "order ") {
					br = append(br, o)
				}
			}
			extraOps = append(extraOps, fmt.Sprintf("REC %d %s", img.line, strings.Join(br, "\n")))
			extraRes = append(extraRes, "")
			for j, img2 := range sub.images {
				w2 := filepath.Join(root, "work2")
				os.RemoveAll(w2)
				copyDir(img2.dir, w2)
				reads, problem, _ := openAndRead(w2, cfg, keys, nil)
				if problem == "" {
					problem = checkVisible(reads, r.acked, img.acked, img.inflight, keys, true)
				}
				if problem != "" {
					extraOps = append(extraOps, fmt.Sprintf("expectok nested image %d.%d", i, j))
					extraRes = append(extraRes, fmt.Sprintf("SPEC-VIOLATION crash at point %d, crash again at point %d of the recovery: %s", i, j, problem))
				}
				// the second crash additionally loses what the recovery had written but not yet fsynced (C14)
				if lossy > 0 {
					cutAny := false
					os.RemoveAll(w2)
					copyDir(img2.dir, w2)
					for f, sl := range img2.files {
						if sl[1] > sl[0] {
							p := filepath.Join(w2, f)
							if b, err := os.ReadFile(p); err == nil && int64(len(b)) >= sl[0] {
								os.WriteFile(p, b[:sl[0]], 0644)
								cutAny = true
							}
						}
					}
					if cutAny {
						reads, problem, _ := openAndRead(w2, cfg, keys, nil)
						if problem == "" {
							problem = checkVisible(reads, r.acked, img.acked, img.inflight, keys, false)
						}
						if problem != "" {
							extraOps = append(extraOps, fmt.Sprintf("expectok nested lossy image %d.%d", i, j))
							extraRes = append(extraRes, fmt.Sprintf("SPEC-VIOLATION crash at point %d, crash again at point %d of the recovery with its unsynced writes lost: %s", i, j, problem))
						}
					}
				}
			}
			os.RemoveAll(sub.root)
		}
	}
	// assemble: main transcript, then the branches (cut images need the disk state of their crash point: the driver
	// replays the transcript prefix again)
	dops = append(dops, r.dops...)
	res = append(res, r.res...)
	for k, op := range extraOps {
		if strings.HasPrefix(op, "CUT ") || strings.HasPrefix(op, "REC ") {
			p := strings.SplitN(op, " ", 3)
			line, _ := strconv.Atoi(p[1])
			dops = append(dops, "reset")
			res = append(res, "ok")
			for j := 1; j < line; j++ {
				if strings.HasPrefix(r.dops[j], "ev ") || strings.HasPrefix(r.dops[j], "plan ") || strings.HasPrefix(r.dops[j], "order ") {
					dops = append(dops, r.dops[j])
					res = append(res, "")
				}
			}
			if strings.HasPrefix(op, "REC ") {
				// the events of the recovery (Open … Close) on this crash image
				for n, o := range strings.Split(p[2], "\n") {
					dops = append(dops, o)
					if n == 0 {
						res = append(res, "ok")
					} else {
						res = append(res, "~ok")
					}
				}
				continue
			}
			dops = append(dops, p[2])
			res = append(res, extraRes[k])
		} else {
			dops = append(dops, op)
			res = append(res, extraRes[k])
		}
	}
	return dops, res
}

func crashGen(r *rand.Rand, n int, thorough bool) []Case {
	var cases []Case
	for c := 0; c < n; c++ {
		maxImg, nested, lossy := 220, 11, 2
		if thorough {
			maxImg, nested, lossy = 1500, 3, 6
		}
		slow := 0
		if c%2 == 0 {
			slow = 1 + r.Intn(4)
		}
		cfg := fmt.Sprintf("%d %d %d %d %d %d %d %d %d", []int{60, 100, 200}[r.Intn(3)], []int{1, 20, 200}[r.Intn(3)], 1+r.Intn(2), 1+r.Intn(2), r.Intn(3), maxImg, nested, lossy, slow)
		closePending := c%2 == 1
		if closePending {
			// Close while several immutable memtables are still queued: rotate on every commit, slow flusher, roomy queue
			cfg = fmt.Sprintf("%d %d %d %d %d %d %d %d %d", 30+r.Intn(20), []int{1, 20, 200}[r.Intn(3)], 1+r.Intn(3), 1+r.Intn(2), 2+r.Intn(3), maxImg, nested, lossy, 3+r.Intn(5))
		}
		manyTables := c%3 == 2
		if manyTables {
			// more than ten tables in level 0 across restarts: every commit rotates, no compaction before 20 tables;
			// the directory lists "0-10.db" before "0-2.db", table names must stay unique after recovery
			closePending = false
			cfg = fmt.Sprintf("%d %d %d %d %d %d %d %d %d", 30+r.Intn(10), []int{20, 200}[r.Intn(2)], 20, 2, 2, maxImg, nested, lossy, 0)
		}
		deep := c%4 == 3
		if deep {
			// compactions below level 1: every commit rotates, every level holds one table (target 1, ratio 1), every transaction
			// writes keys of its own (disjoint ranges: nothing is merged away), so tables are pushed down level by level
			closePending, manyTables = false, false
			cfg = fmt.Sprintf("%d %d %d %d %d %d %d %d %d", 30+r.Intn(10), []int{20, 200}[r.Intn(2)], 1, 1, r.Intn(3), maxImg, nested, lossy, 0)
		}
		if c%4 == 1 {
			// the skiplist shape and the directory mode from the whole valid range (zero = the default)
			cfg += fmt.Sprintf(" %d %d %s", []int{0, 1, 2, 9, 32}[r.Intn(5)], []int{0, 1, 50, 99, 100}[r.Intn(5)], []string{"0", "700", "755"}[r.Intn(3)])
		}
		ops := []string{"open " + cfg}
		nk := 3 + r.Intn(4)
		ckeys := userKeys
		if c%2 == 1 {
			ckeys = subsetKeys(r, nk)
		}
		nt := 14 + r.Intn(14)
		tags := []string{"crash-points", "lossy-tails", "nested-crash"}
		if manyTables {
			nt = 24 + r.Intn(6)
			tags = append(tags, "many-tables-across-restarts")
		}
		if deep {
			tags = append(tags, "compactions-below-level-1")
		}
		for i := 0; i < nt; i++ {
			var kvs []string
			cnt := 1 + r.Intn(4)
			for j := 0; j < cnt; j++ {
				k := ckeys[r.Intn(nk)]
				if deep {
					k = fmt.Sprintf("d%02d-%d", (i*7)%nt, j)
				}
				if r.Intn(6) == 0 {
					kvs = append(kvs, hxs(k)+"=-")
				} else {
					kvs = append(kvs, hxs(k)+"="+hxs(fmt.Sprintf("t%d.%d", i, j)))
				}
			}
			ops = append(ops, "txn "+strings.Join(kvs, ","))
			if manyTables {
				if i == 12 || i == 17 || i == 21 {
					ops = append(ops, "reopen")
				}
				continue
			}
			if closePending {
				if i%5 == 4 {
					ops = append(ops, "reopen")
					tags = append(tags, "close-with-pending-flushes")
				}
				continue
			}
			if r.Intn(4) == 0 {
				ops = append(ops, "sleep")
			}
			if r.Intn(8) == 0 {
				if c%4 == 1 || r.Intn(3) == 0 {
					ops = append(ops, fmt.Sprintf("reopen %d %d %d %d", []int{40, 60, 100, 200, 2000}[r.Intn(5)], []int{0, 1, 20, 200, 4096}[r.Intn(5)], []int{0, 1, 2, 3, 6}[r.Intn(5)], []int{0, 1, 2, 3}[r.Intn(4)]))
					tags = append(tags, "reopen-with-another-configuration")
				} else {
					ops = append(ops, "reopen")
				}
				tags = append(tags, "reopen")
			}
		}
		if c%3 == 1 {
			// a transaction whose only wal record has a length that is a multiple of 256 (torn length prefixes then read as 0)
			ops = append(ops, "txn "+hxs(userKeys[r.Intn(nk)]+"-pad")+"=PAD256")
			tags = append(tags, "record-length-multiple-of-256")
			// … and a transaction of many keys (33 to 70): still one wal batch, all or nothing at every crash point
			var many []string
			for j := 0; j < 33+r.Intn(38); j++ {
				many = append(many, hxs(fmt.Sprintf("m%02d", j))+"="+hxs(fmt.Sprintf("many%d", j)))
			}
			ops = append(ops, "txn "+strings.Join(many, ","))
			tags = append(tags, "many-keys-in-one-transaction")
		}
		if c%3 == 0 {
			// one large transaction at the end (its wal batch is far above 32 KiB): it must still reach the wal by one write
			// and be visible completely or not at all at every crash point inside its Commit
			var kvs []string
			for j := 0; j < 3+r.Intn(2); j++ {
				kvs = append(kvs, hxs(userKeys[r.Intn(nk)]+fmt.Sprintf("-big%d", j))+"="+hx(bytes.Repeat([]byte{byte('A' + j)}, 11000+r.Intn(3000))))
			}
			ops = append(ops, "txn "+strings.Join(kvs, ","))
			tags = append(tags, "large-batch")
			if c%2 == 0 {
				// … and one far above any staging-buffer size one might think of (64 KiB, 128 KiB, 256 KiB)
				kvs = nil
				n, sz := 6+r.Intn(3), 40000+r.Intn(20000) // at least 5 x 40000 + 65535 bytes: above 256 KiB
				for j := 0; j < n; j++ {
					l := sz + r.Intn(3000)
					if j == 1+c%2 {
						// one value of the maximal size (a record above 2^16 bytes) in the middle of the batch
						l = 65535
					}
					kvs = append(kvs, hxs(userKeys[r.Intn(nk)]+fmt.Sprintf("-huge%d", j))+"="+hx(bytes.Repeat([]byte{byte('a' + j)}, l)))
				}
				ops = append(ops, "txn "+strings.Join(kvs, ","))
				tags = append(tags, "huge-batch")
			}
		}
		cases = append(cases, Case{Ops: ops, Tags: tags})
	}
	return cases
}
