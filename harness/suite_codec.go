package main

import (
	"bytes"
	"encoding/binary"
	"fmt"
	"math/rand"
	"os"
	"path/filepath"
	"strconv"
	"strings"
	"sync"

	originium "github.com/B1NARY-GR0UP/originium"
	"github.com/B1NARY-GR0UP/originium/table"
	"github.com/B1NARY-GR0UP/originium/types"
	"github.com/B1NARY-GR0UP/originium/utils"
	"github.com/B1NARY-GR0UP/originium/wal"
)

// ---------- codec : table/*.go, wal/wal.go ----------

// raw entry format of the codec suite: hexkey:hexval:tomb:version(uint64)
func parseCE(s string) types.Entry {
	p := strings.Split(s, ":")
	ver, _ := strconv.ParseUint(p[3], 10, 64)
	val := unhx(p[1])
	if val == nil {
		val = []byte{}
	}
	return types.Entry{Key: string(unhx(p[0])), Value: val, Tombstone: p[2] == "1", Version: int64(ver)}
}

func parseCEs(s string) []types.Entry {
	if s == "[]" {
		return nil
	}
	var es []types.Entry
	for _, x := range strings.Split(s, ",") {
		es = append(es, parseCE(x))
	}
	return es
}

func showCE(e types.Entry) string {
	return fmt.Sprintf("%s:%s:%s:%d", hxs(e.Key), hx(e.Value), b01(e.Tombstone), uint64(e.Version))
}

func showCEs(es []types.Entry) string {
	if len(es) == 0 {
		return "[]"
	}
	var ss []string
	for _, e := range es {
		ss = append(ss, showCE(e))
	}
	return strings.Join(ss, ",")
}

func s2Decompress(b []byte) ([]byte, error) {
	var out bytes.Buffer
	err := utils.Decompress(bytes.NewReader(b), &out)
	return out.Bytes(), err
}

func s2Compress(b []byte) []byte {
	var out bytes.Buffer
	if err := utils.Compress(bytes.NewReader(b), &out); err != nil {
		panic(err)
	}
	return out.Bytes()
}

func showHandle(h table.BlockHandle) string { return fmt.Sprintf("%d+%d", h.Offset, h.Length) }

func showIndex(i table.Index) string {
	var ss []string
	for _, e := range i.Entries {
		ss = append(ss, fmt.Sprintf("%s:%s:%s", hxs(e.StartKey), hxs(e.EndKey), showHandle(e.DataHandle)))
	}
	return showHandle(i.DataBlock) + "|" + strings.Join(ss, ",")
}

func parseHandle(s string) table.BlockHandle {
	p := strings.Split(s, "+")
	a, _ := strconv.ParseUint(p[0], 10, 64)
	b, _ := strconv.ParseUint(p[1], 10, 64)
	return table.BlockHandle{Offset: a, Length: b}
}

func parseIndex(s string) table.Index {
	p := strings.SplitN(s, "|", 2)
	idx := table.Index{DataBlock: parseHandle(p[0])}
	if p[1] != "" {
		for _, x := range strings.Split(p[1], ",") {
			q := strings.Split(x, ":")
			idx.Entries = append(idx.Entries, table.IndexEntry{StartKey: string(unhx(q[0])), EndKey: string(unhx(q[1])), DataHandle: parseHandle(q[2])})
		}
	}
	return idx
}

func orError(f func() (string, error)) (res string) {
	defer func() {
		if p := recover(); p != nil {
			res = "panic"
		}
	}()
	s, err := f()
	if err != nil {
		return "error"
	}
	return s
}

// compTable renders raw=compressed pairs
func compTable(m map[string][]byte, order []string) string {
	if len(order) == 0 {
		return "-"
	}
	var ss []string
	for _, k := range order {
		ss = append(ss, hxs(k)+"="+hx(m[k]))
	}
	return strings.Join(ss, ",")
}

func one(suite, op string) string {
	out, err := runDriver(suite, []string{op})
	if err != nil {
		panic(err)
	}
	return out[0]
}

func codecExec(ops []string) (dops []string, res []string) {
	dir, err := os.MkdirTemp("", "vcodec")
	if err != nil {
		panic(err)
	}
	defer os.RemoveAll(dir)
	add := func(op, r string) {
		dops = append(dops, op)
		res = append(res, r)
	}
	for _, op := range ops {
		t := strings.Split(op, " ")
		switch t[0] {
		case "data":
			add(op, orError(func() (string, error) {
				d := table.Data{Entries: parseCEs(t[1])}
				b, err := d.Encode()
				if err != nil {
					return "", err
				}
				raw, err := s2Decompress(b)
				return hx(raw), err
			}))
		case "bigblock":
			// bigblock <entries> <valueSize> <blockThreshold> <seed>: a data block and a whole table far beyond the default block
			// size (hundreds of KiB up to a few MiB); the round trip is compared here, against the property itself
			n, _ := strconv.Atoi(t[1])
			vs, _ := strconv.Atoi(t[2])
			bs, _ := strconv.Atoi(t[3])
			seed, _ := strconv.Atoi(t[4])
			rr := rand.New(rand.NewSource(int64(seed)))
			var es []types.Entry
			for i := 0; i < n; i++ {
				v := make([]byte, vs)
				if i%2 == 0 && seed%3 != 0 {
					rr.Read(v) // incompressible (one workload in three is compressible throughout: a large block, a small encoding)
				} else {
					for j := range v {
						v[j] = byte(i)
					}
				}
				es = append(es, types.Entry{Key: types.KeyWithTs(fmt.Sprintf("big-%04d", i), uint64(1+i)), Value: v, Tombstone: i%7 == 3, Version: int64(1 + i)})
			}
			add("roundtrip data block of "+t[1]+" entries x "+t[2]+" bytes", func() (out string) {
				defer func() {
					if p := recover(); p != nil {
						out = fmt.Sprintf("panic: %v", p)
					}
				}()
				d := table.Data{Entries: es}
				b, err := d.Encode()
				if err != nil {
					return "encode error: " + err.Error()
				}
				// the bytes the encoder returned are kept while other encoders, a table build and the wal use the pooled buffers
				kept := bytes.Clone(b)
				small := []types.Entry{{Key: types.KeyWithTs("s", 1), Value: []byte("x"), Version: 1}}
				for k := 0; k < 3; k++ {
					sd := table.Data{Entries: small}
					_, _ = sd.Encode()
					table.Build(small, 4096, 0)
				}
				if w, err := wal.Create(dir); err == nil {
					_ = w.Write(small...)
					_, _ = w.Read()
					w.Delete()
				}
				if !bytes.Equal(b, kept) {
					return "CHANGED: the bytes returned by Data.Encode were overwritten by later encoder calls"
				}
				var back table.Data
				if err := back.Decode(b); err != nil {
					return "decode error: " + err.Error()
				}
				if showCEs(back.Entries) != showCEs(es) {
					return "decoded entries differ"
				}
				return "same"
			}())
			add("roundtrip table of "+t[1]+" entries x "+t[2]+" bytes, block threshold "+t[3], func() (out string) {
				defer func() {
					if p := recover(); p != nil {
						out = fmt.Sprintf("panic: %v", p)
					}
				}()
				idx, file := table.Build(es, bs, 0)
				var got []types.Entry
				for _, h := range idx.Entries {
					var back table.Data
					if err := back.Decode(file[h.DataHandle.Offset : h.DataHandle.Offset+h.DataHandle.Length]); err != nil {
						return "decode error: " + err.Error()
					}
					got = append(got, back.Entries...)
				}
				if showCEs(got) != showCEs(es) {
					return "decoded entries differ"
				}
				return "same"
			}())
		case "undata":
			add(op, orError(func() (string, error) {
				var d table.Data
				if err := d.Decode(s2Compress(unhx(t[1]))); err != nil {
					return "", err
				}
				return showCEs(d.Entries), nil
			}))
		case "index":
			add(op, orError(func() (string, error) {
				i := parseIndex(t[1])
				b, err := i.Encode()
				if err != nil {
					return "", err
				}
				raw, err := s2Decompress(b)
				return hx(raw), err
			}))
		case "unindex":
			add(op, orError(func() (string, error) {
				var i table.Index
				if err := i.Decode(s2Compress(unhx(t[1]))); err != nil {
					return "", err
				}
				return showIndex(i), nil
			}))
		case "footer":
			add(op, orError(func() (string, error) {
				magic, _ := strconv.ParseUint(t[3], 10, 64)
				f := table.Footer{MetaBlock: parseHandle(t[1]), IndexBlock: parseHandle(t[2]), Magic: magic}
				b, err := f.Encode()
				return hx(b), err
			}))
		case "unfooter":
			add(op, orError(func() (string, error) {
				var f table.Footer
				if err := f.Decode(unhx(t[1])); err != nil {
					return "", err
				}
				return fmt.Sprintf("%s %s %d", showHandle(f.MetaBlock), showHandle(f.IndexBlock), f.Magic), nil
			}))
		case "meta":
			add(op, orError(func() (string, error) {
				c, _ := strconv.ParseUint(t[1], 10, 64)
				l, _ := strconv.ParseUint(t[2], 10, 64)
				m := table.Meta{CreatedUnix: int64(c), Level: l}
				b, err := m.Encode()
				return hx(b), err
			}))
		case "unmeta":
			add(op, orError(func() (string, error) {
				var m table.Meta
				if err := m.Decode(unhx(t[1])); err != nil {
					return "", err
				}
				return fmt.Sprintf("%d %d", uint64(m.CreatedUnix), m.Level), nil
			}))
		case "table":
			// table <bs> <level> <entries> [cut]: Build, compare the bytes with the model's layout (S2 given to the
			// model as a table of the chunks it needs), then recover the (possibly truncated) file
			bs, _ := strconv.Atoi(t[1])
			level, _ := strconv.Atoi(t[2])
			es := parseCEs(t[3])
			idx, file := table.Build(es, bs, level)
			// the image Build returned must stay what it is while later encoder / decoder / wal calls reuse pooled buffers
			orig := bytes.Clone(file)
			{
				other := parseCEs(t[3])
				for i := 0; i < 3; i++ {
					d := table.Data{Entries: other}
					_, _ = d.Encode()
					table.Build(other, 1+i*7, 0)
					var ix table.Index
					_ = ix
				}
				if w, err := wal.Create(dir); err == nil {
					_ = w.Write(other...)
					_, _ = w.Read()
					w.Delete()
				}
			}
			if bytes.Equal(file, orig) {
				add("intact table-image", "intact")
			} else {
				add("intact table-image", "CHANGED: the bytes returned by table.Build were overwritten by later encoder calls")
				file = orig
			}
			// created time: read it back from the meta block (time.Now inside Build)
			var ft table.Footer
			if err := ft.Decode(file[len(file)-40:]); err != nil {
				panic(err)
			}
			created := binary.LittleEndian.Uint64(file[ft.MetaBlock.Offset : ft.MetaBlock.Offset+8])
			comp := map[string][]byte{}
			var order []string
			chunks := one("codec", fmt.Sprintf("chunks %d %s", bs, t[3]))
			if chunks != "" {
				for _, c := range strings.Split(chunks, ",") {
					raw := string(unhx(c))
					if _, ok := comp[raw]; !ok {
						comp[raw] = s2Compress([]byte(raw))
						order = append(order, raw)
					}
				}
			}
			rawIndex := string(unhx(one("codec", fmt.Sprintf("rawindex %d %s %s", bs, t[3], compTable(comp, order)))))
			if _, ok := comp[rawIndex]; !ok {
				comp[rawIndex] = s2Compress([]byte(rawIndex))
				order = append(order, rawIndex)
			}
			ct := compTable(comp, order)
			add(fmt.Sprintf("table %d %d %d %s %s", bs, level, created, t[3], ct), hx(file)+" "+showIndex(idx))
			// recovery of the file, complete or cut
			cut := len(file)
			if len(t) > 4 {
				c, _ := strconv.Atoi(t[4])
				if c < cut {
					cut = c
				}
			}
			sub := filepath.Join(dir, fmt.Sprintf("t%d", len(dops)))
			os.MkdirAll(sub, 0755)
			if err := os.WriteFile(filepath.Join(sub, "0-0.db"), file[:cut], 0644); err != nil {
				panic(err)
			}
			add(fmt.Sprintf("parse %s %s", hx(file[:cut]), ct), orError(func() (string, error) {
				lm := originium.NewVerifLevels(sub, 4, 10, bs, 0)
				defer lm.Stop()
				lm.Recover()
				tabs := lm.Tables()
				if len(tabs) != 1 {
					return "", fmt.Errorf("tables: %d", len(tabs))
				}
				return showIndex(tabs[0].Index) + " " + showCEs(tabs[0].Entries), nil
			}))
		case "wal":
			// wal <batch>;<batch>;... [cut]: Write each batch, compare the file bytes, read it back (complete or cut)
			sub := filepath.Join(dir, fmt.Sprintf("w%d", len(dops)))
			os.MkdirAll(sub, 0755)
			w, err := wal.Create(sub)
			if err != nil {
				panic(err)
			}
			var all []types.Entry
			var allS []string
			for _, b := range strings.Split(t[1], ";") {
				es := parseCEs(b)
				if err := w.Write(es...); err != nil {
					panic(err)
				}
				all = append(all, es...)
				if b != "[]" {
					allS = append(allS, b)
				}
			}
			w.Close()
			// the record encoder on its own: the bytes it returned for one entry stay what they are while further entries are
			// encoded (whoever calls it may hold several records at once)
			if len(all) >= 2 {
				var kept, orig [][]byte
				for i := range all {
					b, err := utils.TMarshal(&all[i])
					if err != nil {
						panic(err)
					}
					kept = append(kept, b)
					orig = append(orig, append([]byte{}, b...))
				}
				same := true
				for i := range kept {
					if !bytes.Equal(kept[i], orig[i]) {
						same = false
					}
				}
				if same {
					add("intact wal-records", "intact")
				} else {
					add("intact wal-records", "CHANGED: the bytes returned by the wal record encoder were overwritten by a later call")
				}
			}
			files, _ := filepath.Glob(filepath.Join(sub, "*.log"))
			fileBytes, _ := os.ReadFile(files[0])
			joined := "[]"
			if len(allS) > 0 {
				joined = strings.Join(allS, ",")
			}
			add("wal "+joined, hx(fileBytes))
			cut := len(fileBytes)
			if len(t) > 2 {
				c, _ := strconv.Atoi(t[2])
				if c < cut {
					cut = c
				}
			}
			if err := os.WriteFile(files[0], fileBytes[:cut], 0644); err != nil {
				panic(err)
			}
			add("readwal "+hx(fileBytes[:cut]), orError(func() (string, error) {
				w2, err := wal.Open(files[0])
				if err != nil {
					return "", err
				}
				defer w2.Close()
				es, err := w2.Read()
				if err != nil {
					return "", err
				}
				return showCEs(es), nil
			}))
		case "conc":
			// conc <goroutines> <seed>: encoders and wal writers run concurrently; every returned encoding is kept and
			// checked afterwards against the model (the bytes an encoder returned must not change)
			n, _ := strconv.Atoi(t[1])
			seed, _ := strconv.ParseInt(t[2], 10, 64)
			type kept struct {
				es  string
				enc []byte
			}
			results := make([][]kept, n)
			var wg sync.WaitGroup
			w, _ := wal.Create(dir)
			for g := 0; g < n; g++ {
				wg.Add(1)
				go func(g int) {
					defer wg.Done()
					r := rand.New(rand.NewSource(seed*100 + int64(g)))
					for i := 0; i < 30; i++ {
						es := genRawEntries(r, 1+r.Intn(6), false)
						d := table.Data{Entries: parseCEs(es)}
						b, err := d.Encode()
						if err != nil {
							continue
						}
						results[g] = append(results[g], kept{es, b})
						if g%2 == 0 {
							_ = w.Write(parseCEs(es)...)
						} else {
							table.Build(parseCEs(es), 1+r.Intn(50), 0)
						}
					}
				}(g)
			}
			wg.Wait()
			w.Delete()
			for g := range results {
				for _, k := range results[g] {
					k := k
					add("data "+k.es, orError(func() (string, error) {
						raw, err := s2Decompress(k.enc)
						return hx(raw), err
					}))
				}
			}
		}
	}
	return dops, res
}

// genRawEntries: sorted-ish entry lists with shared prefixes, empty and binary keys/values
func genRawEntries(r *rand.Rand, n int, versioned bool) string {
	var ss []string
	prefix := []string{"", "a", "key-", "key-000", "user:", "\x00\x01", "k@"}[r.Intn(7)]
	for i := 0; i < n; i++ {
		var k string
		switch r.Intn(7) {
		case 0:
			k = prefix
		case 2:
			// multi-byte UTF-8 runes that share their lead bytes and differ in a continuation byte only (a prefix length
			// computed by ranging over the string as runes instead of bytes over- or under-counts on these: seeded change C11-q)
			runes := []string{"\u00e9", "\u00e8", "\u00ea", "\u65e5", "\u65e6", "\u65a5", "\U0001f600", "\U0001f601", "\U0001f641", "\xc3", "\xe6\x97"}
			k = prefix + "caf"
			for j := 1 + r.Intn(3); j > 0; j-- {
				k += runes[r.Intn(len(runes))]
			}
		case 1:
			b := make([]byte, r.Intn(5))
			for j := range b {
				b[j] = byte(r.Intn(256))
			}
			k = prefix + string(b)
		default:
			k = fmt.Sprintf("%s%03d", prefix, r.Intn(40))
		}
		ver := uint64(r.Intn(50))
		switch r.Intn(12) {
		case 0:
			ver = 1<<63 - 1
		case 1:
			ver = 1<<64 - 1
		}
		if versioned {
			if ver >= 1<<63 {
				ver = uint64(r.Intn(1000))
			}
			k = types.KeyWithTs(k, ver)
		}
		ss = append(ss, fmt.Sprintf("%s:%s:%s:%d", hxs(k), hx(pickValue(r, i)), b01(r.Intn(5) == 0), ver))
	}
	return strings.Join(ss, ",")
}

func longKey(base string, n int, tail string) string {
	return base + strings.Repeat("x", n-len(base)-len(tail)) + tail
}

func codecGen(r *rand.Rand, n int, big bool) []Case {
	var cases []Case
	for c := 0; c < n; c++ {
		var ops []string
		tags := map[string]bool{}
		for i := 0; i < 6; i++ {
			switch r.Intn(9) {
			case 0, 1:
				es := genRawEntries(r, 1+r.Intn(8), false)
				ops = append(ops, "data "+es)
				raw := one("codec", "data "+es)
				if raw != "error" && raw != "bad-op" {
					ops = append(ops, "undata "+raw)
					b := unhx(raw)
					if len(b) > 0 {
						ops = append(ops, "undata "+hx(b[:r.Intn(len(b))])) // truncated
						tags["truncated-block"] = true
					}
				}
				tags["data"] = true
			case 2:
				var es []string
				off := 0
				for j := 0; j < r.Intn(5); j++ {
					l := r.Intn(1000)
					es = append(es, fmt.Sprintf("%s:%s:%d+%d", hxs(pickKey(r, 18)+"@1"), hxs(pickKey(r, 18)+"@0"), off, l))
					off += l
				}
				idx := fmt.Sprintf("0+%d|%s", off, strings.Join(es, ","))
				ops = append(ops, "index "+idx)
				raw := one("codec", "index "+idx)
				ops = append(ops, "unindex "+raw)
				tags["index"] = true
			case 3:
				magic := uint64(0x5bc2aa5766250562)
				if r.Intn(4) == 0 {
					magic = r.Uint64()
					tags["bad-magic"] = true
				}
				f := fmt.Sprintf("footer %d+%d %d+%d %d", r.Intn(1<<20), r.Intn(100), r.Intn(1<<20), r.Intn(5000), magic)
				ops = append(ops, f)
				raw := one("codec", f)
				ops = append(ops, "unfooter "+raw, "unfooter "+hx(unhx(raw)[:r.Intn(40)]))
				tags["footer"] = true
			case 4:
				m := fmt.Sprintf("meta %d %d", r.Uint64(), r.Intn(7))
				ops = append(ops, m, "unmeta "+one("codec", m))
			case 5, 6:
				// whole table; entries must be versioned keys (recovery builds the bloom filter with ParseKey)
				es := genRawEntries(r, 1+r.Intn(10), true)
				op := fmt.Sprintf("table %d %d %s", []int{1, 10, 40, 200, 4096}[r.Intn(5)], r.Intn(4), es)
				if r.Intn(3) == 0 {
					op += fmt.Sprintf(" %d", r.Intn(300))
					tags["cut-table"] = true
				}
				ops = append(ops, op)
				tags["table"] = true
			case 7:
				var bs []string
				for j := 0; j < 1+r.Intn(4); j++ {
					bs = append(bs, genRawEntries(r, 1+r.Intn(4), r.Intn(2) == 0))
				}
				op := "wal " + strings.Join(bs, ";")
				if r.Intn(2) == 0 {
					op += fmt.Sprintf(" %d", r.Intn(400))
					tags["torn-wal"] = true
				}
				ops = append(ops, op)
				tags["wal"] = true
			case 8:
				if big && r.Intn(4) == 0 {
					vs := []int{1000, 20000, 65535}[r.Intn(3)]
					total := []int{70000, 130000, 270000, 600000, 1100000, 2200000}[r.Intn(6)]
					ops = append(ops, fmt.Sprintf("bigblock %d %d %d %d", total/vs+1, vs, []int{4096, 300000, 1 << 20, 4 << 20}[r.Intn(4)], r.Intn(1000)))
					tags["block-beyond-256KiB"] = true
					break
				}
				ops = append(ops, fmt.Sprintf("conc %d %d", 2+r.Intn(6), r.Intn(1000)))
				tags["concurrent"] = true
			}
		}
		if big && c%10 == 0 {
			// lengths around the 16 bit boundary, long shared prefixes
			for _, kl := range []int{255, 256, 65535, 65536, 70000} {
				k1 := longKey("p", kl, "a")
				k2 := longKey("p", kl, "b")
				ops = append(ops, fmt.Sprintf("data %s:%s:0:1,%s:%s:1:2", hxs(k1), hxs("v"), hxs(k2), hx(nil)))
			}
			// keys that share more than 65535 bytes although each suffix is short
			k1 := longKey("q", 65000, "")
			k2 := k1 + strings.Repeat("y", 1000)
			k3 := k2 + "z"
			ops = append(ops, fmt.Sprintf("data %s:%s:0:1,%s:%s:0:2,%s:%s:0:3", hxs(k1), hxs("1"), hxs(k2), hxs("2"), hxs(k3), hxs("3")))
			// wal records at the largest sizes Txn.Set admits (key and value both near 2^16: a record above 2^17 bytes),
			// followed by small ones that must still be read back
			{
				bigK := longKey("w", 65535, "@7")
				bigV := hx(bytes.Repeat([]byte{9}, 65535))
				ops = append(ops, fmt.Sprintf("wal %s:%s:0:7,%s:%s:0:8;%s:%s:1:9", hxs("a@7"), hxs("x"), hxs(bigK), bigV, hxs("z@9"), hx(nil)))
				tags["wal-record-above-2^17"] = true
			}
			for _, vl := range []int{65535, 65536} {
				ops = append(ops, fmt.Sprintf("data %s:%s:0:1", hxs("k@1"), hx(bytes.Repeat([]byte{7}, vl))))
			}
			tags["16-bit-boundary"] = true
		}
		var tl []string
		for t := range tags {
			tl = append(tl, t)
		}
		cases = append(cases, Case{Ops: ops, Tags: tl})
	}
	return cases
}
