package main

import (
	"flag"
	"fmt"
	"math/rand"
	"os"
	"time"

	"github.com/B1NARY-GR0UP/originium/pkg/logger"
)

type nolog struct{}

func (nolog) Debugf(string, ...any) {}
func (nolog) Infof(string, ...any)  {}
func (nolog) Warnf(string, ...any)  {}
func (nolog) Errorf(string, ...any) {}
func (nolog) Fatalf(f string, a ...any) {
	panic("fatal: " + fmt.Sprintf(f, a...))
}
func (nolog) Panicf(f string, a ...any) { panic(fmt.Sprintf(f, a...)) }

func main() {
	suite := flag.String("suite", "", "suite name")
	seed := flag.Int64("seed", 1, "PRNG seed")
	tier := flag.String("tier", "quick", "quick|thorough")
	out := flag.String("out", "-", "result json")
	replay := flag.String("replay", "", "replay file (ops, one per line)")
	flag.StringVar(&driverPath, "driver", driverPath, "lean driver executable")
	flag.Parse()
	logger.SetLogger(nolog{})
	start := time.Now()
	r := rand.New(rand.NewSource(*seed))
	res := newResult(*suite, *seed, *tier)
	thorough := *tier == "thorough"
	scale := func(q, t int) int {
		if thorough {
			return t
		}
		return q
	}
	if *replay != "" {
		os.Exit(doReplay(*suite, *replay))
	}
	switch *suite {
	case "key":
		s := Suite{Name: "key", DriverSuite: "key", Exec: keyExec}
		res.Rule = "40 random calls of KeyWithTs/ParseKey/ParseTs/CompareKeys/IsSameKey per case on adversarial strings (keys containing '@', non canonical timestamps, overflow); non-trivial = the case contains a raw comparison, a panic path or a same-user versioned comparison"
		runCases(s, keyGen(r, scale(300, 5000)), res)
	case "filter":
		s := Suite{Name: "filter", DriverSuite: "filter", Exec: filterExec}
		res.Rule = "filter.Build on 1..N entries, Contains of every member and of absent keys, implementation vs model fed with the real murmur3 values; non-trivial = every case (distinct key sets)"
		runCases(s, filterGen(r, scale(60, 600), scale(400, 5000)), res)
		filterDims(res, scale(3000, 20000))
	case "skiplist":
		s := Suite{Name: "skiplist", DriverSuite: "skiplist", Exec: skipExec}
		res.Rule = "random Set/Get/LowerBound/Scan/All/Delete sequences over versioned keys, maxLevel in {1,2,4,9,32}, p in {0.01,0.25,0.5,0.99}; non-trivial = the case overwrites a key, writes a tombstone, scans or deletes an existing key"
		runCases(s, skipGen(r, scale(120, 2000), scale(120, 300)), res)
	case "wm":
		s := Suite{Name: "wm", DriverSuite: "wm", Exec: wmExec}
		res.Rule = "random Begin/Done sequences on the real WaterMark, DoneUntil compared with the model after every mark (VerifSync), bursts of >100 marks; non-trivial = repeated index, Done without Begin, or burst"
		runCases(s, wmGen(r, scale(60, 600), scale(80, 200)), res)
	default:
		if !runMoreSuites(*suite, r, res, thorough) {
			fmt.Fprintln(os.Stderr, "unknown suite", *suite)
			os.Exit(2)
		}
	}
	writeResult(res, *out, start)
	if len(res.Mismatches) > 0 {
		os.Exit(1)
	}
}

func doReplay(suite, path string) int {
	fmt.Fprintln(os.Stderr, "replay not implemented for", suite, path)
	return 2
}
