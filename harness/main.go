package main

import (
	"flag"
	"fmt"
	"math/rand"
	"os"
	"strings"
	"time"

	"github.com/B1NARY-GR0UP/originium/pkg/logger"
)

type nolog struct{}

func (nolog) Debugf(string, ...any) {}
func (nolog) Infof(string, ...any)  {}
func (nolog) Warnf(string, ...any)  {}
func (nolog) Errorf(string, ...any) {}
func (nolog) Fatalf(f string, a ...any) {
	panic("fatal: " + fmt.Sprintf(f, a...))
}
func (nolog) Panicf(f string, a ...any) { panic(fmt.Sprintf(f, a...)) }

func main() {
	suite := flag.String("suite", "", "suite name")
	seed := flag.Int64("seed", 1, "PRNG seed")
	tier := flag.String("tier", "quick", "quick|thorough")
	out := flag.String("out", "-", "result json")
	replay := flag.String("replay", "", "replay file (ops, one per line)")
	flag.StringVar(&driverPath, "driver", driverPath, "lean driver executable")
	shard := flag.String("shard", "", "k/n: run only the generated cases whose index is k modulo n (the generator is run in full, so the union of the n shards is the unsharded suite)")
	flag.Parse()
	if *shard != "" {
		if _, err := fmt.Sscanf(*shard, "%d/%d", &shardK, &shardN); err != nil || shardN < 1 || shardK < 0 || shardK >= shardN {
			fmt.Fprintln(os.Stderr, "bad -shard", *shard)
			os.Exit(2)
		}
	}
	logger.SetLogger(nolog{})
	start := time.Now()
	r := rand.New(rand.NewSource(*seed))
	res := newResult(*suite, *seed, *tier)
	thorough := *tier == "thorough"
	scale := func(q, t int) int {
		if thorough {
			return t
		}
		return q
	}
	if *replay != "" {
		code := doReplay(*suite, *replay, res)
		writeResult(res, *out, start)
		os.Exit(code)
	}
	switch *suite {
	case "key":
		s := Suite{Name: "key", DriverSuite: "key", Exec: same(keyExec)}
		res.Rule = "40 random calls of KeyWithTs/ParseKey/ParseTs/CompareKeys/IsSameKey per case on adversarial strings (keys containing '@', non canonical timestamps, overflow); non-trivial = the case contains a raw comparison, a panic path or a same-user versioned comparison"
		runCases(s, keyGen(r, scale(300, 5000)), res)
	case "filter":
		s := Suite{Name: "filter", DriverSuite: "filter", Exec: same(filterExec)}
		res.Rule = "filter.Build on 1..N entries (quick: N = 400, thorough: N = 1200 and a few filters of 4800 entries), keys of 0 to 5000 bytes incl. long shared prefixes, Contains of every member and of absent keys (member after miss included), implementation vs model fed with the real murmur3 values; non-trivial = every case (distinct key sets)"
		runCases(s, filterGen(r, scale(60, 300), scale(400, 1200)), res)
		filterDims(res, scale(3000, 20000))
	case "skiplist":
		s := Suite{Name: "skiplist", DriverSuite: "skiplist", Exec: same(skipExec)}
		res.Rule = "random Set/Get/LowerBound/Scan/All/Delete sequences over versioned keys, maxLevel in {1,2,4,9,32}, p in {0.01,0.25,0.5,0.99}; non-trivial = the case overwrites a key, writes a tombstone, scans or deletes an existing key"
		runCases(s, skipGen(r, scale(120, 2000), scale(120, 300)), res)
	case "wm":
		caseTimeout = 120 * time.Second // a case takes milliseconds (a herd of waiters: seconds); a stuck process goroutine blocks VerifSync for good
		s := Suite{Name: "wm", DriverSuite: "wm", Exec: same(wmExec)}
		res.Rule = "random Begin/Done sequences on the real WaterMark, DoneUntil compared with the model after every mark (VerifSync), bursts of >100 marks; non-trivial = repeated index, Done without Begin, or burst"
		runCases(s, wmGen(r, scale(60, 600), scale(80, 200)), res)
	default:
		if !runMoreSuites(*suite, r, res, thorough) {
			fmt.Fprintln(os.Stderr, "unknown suite", *suite)
			os.Exit(2)
		}
	}
	writeResult(res, *out, start)
	if len(res.Mismatches) > 0 {
		os.Exit(1)
	}
}

// suiteByName: the interpreter of each differential suite (for replays and the corpus)
func suiteByName(name string) (Suite, bool) {
	switch name {
	case "key":
		return Suite{Name: "key", DriverSuite: "key", Exec: same(keyExec)}, true
	case "filter":
		return Suite{Name: "filter", DriverSuite: "filter", Exec: same(filterExec)}, true
	case "skiplist":
		return Suite{Name: "skiplist", DriverSuite: "skiplist", Exec: same(skipExec)}, true
	case "wm":
		return Suite{Name: "wm", DriverSuite: "wm", Exec: same(wmExec)}, true
	}
	return moreSuiteByName(name)
}

// doReplay runs one recorded operation sequence (one op per line) on implementation and model
func doReplay(suite, path string, res *Result) int {
	s, ok := suiteByName(suite)
	if !ok {
		fmt.Fprintln(os.Stderr, "no replay for suite", suite)
		return 2
	}
	b, err := os.ReadFile(path)
	if err != nil {
		fmt.Fprintln(os.Stderr, err)
		return 2
	}
	var ops []string
	for _, l := range strings.Split(string(b), "\n") {
		if strings.TrimSpace(l) != "" {
			ops = append(ops, l)
		}
	}
	res.Rule = "replay of " + path
	runCases(s, []Case{{Ops: ops, Tags: []string{"replay"}}}, res)
	for _, m := range res.Mismatches {
		fmt.Printf("MISMATCH kind=%s op=%q implementation=%q model=%q\n", m.Kind, m.Op, m.Impl, m.Model)
	}
	if len(res.Mismatches) > 0 {
		return 1
	}
	fmt.Println("replay: implementation and model agree")
	return 0
}
