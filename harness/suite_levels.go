package main

import (
	"fmt"
	"math/rand"
	"os"
	"path/filepath"
	"sort"
	"strconv"
	"strings"
	"sync"

	originium "github.com/B1NARY-GR0UP/originium"
	"github.com/B1NARY-GR0UP/originium/pkg/vhook"
	"github.com/B1NARY-GR0UP/originium/types"
)

// ---------- levels : level.go through the verif level manager ----------

func parseEntryLine(s string) types.Entry {
	// hexuser@ts:hexval:tomb:ver
	p := strings.Split(s, ":")
	kv := strings.Split(p[0], "@")
	ts, _ := strconv.ParseUint(kv[1], 10, 64)
	ver, _ := strconv.ParseInt(p[3], 10, 64)
	val := unhx(p[1])
	if val == nil {
		val = []byte{}
	}
	return types.Entry{Key: types.KeyWithTs(string(unhx(kv[0])), ts), Value: val, Tombstone: p[2] == "1", Version: ver}
}

func parseEntriesLine(s string) []types.Entry {
	if s == "[]" {
		return nil
	}
	var es []types.Entry
	for _, x := range strings.Split(s, ",") {
		es = append(es, parseEntryLine(x))
	}
	return es
}

func tableName(path string) string {
	return strings.TrimSuffix(filepath.Base(path), ".db")
}

type lvEvent struct {
	kind string
	out  string
	ins  []string
}

var hookMu sync.Mutex

// levelOfName "1-3" -> 1
func levelOfName(n string) int {
	l, _ := strconv.Atoi(strings.Split(n, "-")[0])
	return l
}

func levelsExec(ops []string) (dops []string, res []string) {
	dir, err := os.MkdirTemp("", "vlevels")
	if err != nil {
		panic(err)
	}
	defer os.RemoveAll(dir)
	var lm *originium.VerifLevels
	defer func() {
		if lm != nil {
			lm.Stop()
		}
	}()
	var events []lvEvent
	vhook.Install(&vhook.Handlers{Event: func(name string, args ...any) {
		switch name {
		case "table.flush":
			events = append(events, lvEvent{kind: "flush", out: tableName(args[0].(string))})
		case "table.compact":
			var ins []string
			for _, p := range args[1].([]string) {
				ins = append(ins, tableName(p))
			}
			// merge order: the higher level (older data) first, order inside a level as listed
			sort.SliceStable(ins, func(i, j int) bool { return levelOfName(ins[i]) > levelOfName(ins[j]) })
			events = append(events, lvEvent{kind: "compact", out: tableName(args[0].(string)), ins: ins})
		}
	}})
	defer vhook.Install(nil)
	content := func(name string) string {
		for _, t := range lm.Tables() {
			if tableName(t.Name) == name {
				return fmt.Sprintf("%s:%s:blocks=%d", name, showEntries(t.Entries), len(t.Index.Entries))
			}
		}
		return name + ":missing"
	}
	// C16 at every place a filter is built (flush, compaction, recovery): no table's filter denies a key of the table
	filtersOK := func(when string) {
		var bad []string
		for _, t := range lm.Tables() {
			for _, u := range t.Denied {
				bad = append(bad, fmt.Sprintf("%s denies %q", tableName(t.Name), u))
			}
		}
		dops = append(dops, "expectok no filter denies a key of its table, "+when)
		if len(bad) == 0 {
			res = append(res, "ok")
		} else {
			if len(bad) > 4 {
				bad = bad[:4]
			}
			res = append(res, "SPEC-VIOLATION: bloom filter without the keys it was built from ("+when+"): "+strings.Join(bad, "; "))
		}
	}
	var l0, ratio, bs int
	var low, maxLow uint64
	for _, op := range ops {
		t := strings.Split(op, " ")
		switch t[0] {
		case "lm":
			l0, _ = strconv.Atoi(t[1])
			ratio, _ = strconv.Atoi(t[2])
			bs, _ = strconv.Atoi(t[3])
			low, _ = strconv.ParseUint(t[4], 10, 64)
			lm = originium.NewVerifLevels(dir, l0, ratio, bs, low)
			dops = append(dops, op)
			res = append(res, "ok")
		case "flush":
			events = nil
			if err := lm.FlushToL0(parseEntriesLine(t[1])); err != nil {
				panic(err)
			}
			name := events[0].out
			dops = append(dops, fmt.Sprintf("flush %s %s", name, t[1]))
			res = append(res, "~"+content(name))
			filtersOK("after a flush")
		case "compact":
			events = nil
			lm.CheckAndCompact()
			for _, e := range events {
				if low > maxLow {
					maxLow = low
				}
				dops = append(dops, fmt.Sprintf("compact %s %s", e.out, strings.Join(e.ins, ",")))
				res = append(res, "~"+content(e.out))
			}
			if len(events) > 0 {
				filtersOK("after a compaction")
			}
		case "get":
			ts, _ := strconv.ParseUint(t[2], 10, 64)
			k := types.KeyWithTs(string(unhx(t[1])), ts)
			e, ok := lm.SearchLowerBound(k)
			if ok && !types.IsSameKey(k, e.Key) {
				ok = false
			}
			dops = append(dops, op)
			if ts < maxLow {
				// not a permitted read any more: the answer depends on what compaction dropped
				res = append(res, "~"+showOpt(e, ok))
			} else {
				res = append(res, showOpt(e, ok))
			}
		case "recover":
			low, _ = strconv.ParseUint(t[1], 10, 64)
			lm.Stop()
			lm = originium.NewVerifLevels(dir, l0, ratio, bs, low)
			mv := lm.Recover()
			dops = append(dops, op)
			res = append(res, strconv.FormatInt(mv, 10))
			filtersOK("after a recovery")
		case "tables":
			tabs := lm.Tables()
			var ss []string
			for _, tb := range tabs {
				ss = append(ss, fmt.Sprintf("%s:%s", tableName(tb.Name), showEntries(tb.Entries)))
			}
			sort.Strings(ss)
			dops = append(dops, "tables")
			res = append(res, "") // order of the model's list differs; contents are compared per table above
		}
	}
	return dops, res
}

type lvUniverse struct {
	users []string
	maxTs int
}

// entry of the universe: value and tombstone are functions of (user, ts): consistent contents
func uniEntry(u string, ts int) string {
	tomb := (len(u)+ts*7)%5 == 0
	val := fmt.Sprintf("%s.%d", u, ts)
	if (len(u)+ts)%6 == 0 {
		val = ""
	}
	if tomb {
		val = ""
	}
	return fmt.Sprintf("%s@%d:%s:%s:%d", hxs(u), ts, hxs(val), b01(tomb), ts)
}

func sortedEntries(pairs [][2]any) string {
	sort.Slice(pairs, func(i, j int) bool {
		a := types.KeyWithTs(pairs[i][0].(string), uint64(pairs[i][1].(int)))
		b := types.KeyWithTs(pairs[j][0].(string), uint64(pairs[j][1].(int)))
		return types.CompareKeys(a, b) < 0
	})
	var ss []string
	for _, p := range pairs {
		ss = append(ss, uniEntry(p[0].(string), p[1].(int)))
	}
	return strings.Join(ss, ",")
}

func levelsGen(r *rand.Rand, n int, small bool) []Case {
	var cases []Case
	for c := 0; c < n; c++ {
		nu := 1 + r.Intn(5)
		maxTs := 2 + r.Intn(8)
		if small {
			nu, maxTs = 1+r.Intn(3), 2+r.Intn(3)
		}
		perm := r.Perm(len(userKeys))
		var users []string
		for i := 0; i < nu; i++ {
			users = append(users, userKeys[perm[i]])
		}
		low := 0
		if r.Intn(3) > 0 {
			low = r.Intn(maxTs + 2)
		}
		bsz := []int{1, 1, 5, 20, 60, 200}[r.Intn(6)]
		if c%6 == 4 {
			// long user keys that share a prefix of 255 / 256 / 300+ bytes, in blocks large enough to hold several of them
			// (shared-prefix lengths and key lengths beyond one byte)
			p := strings.Repeat("p", []int{254, 255, 256, 257, 300, 700}[r.Intn(6)])
			users = append([]string{p + "a", p + "b", p}, users...)
			if len(users) > 5 {
				users = users[:5]
			}
			bsz = []int{2000, 4096, 100000}[r.Intn(3)]
		}
		ops := []string{fmt.Sprintf("lm %d %d %d %d", 1+r.Intn(4), 1+r.Intn(3), bsz, low)}
		tags := map[string]bool{}
		if bsz == 1 {
			tags["one-entry-blocks"] = true
		}
		queries := func() {
			for _, u := range users {
				for ts := 0; ts <= maxTs+1; ts++ {
					ops = append(ops, fmt.Sprintf("get %s %d", hxs(u), ts))
				}
			}
			ops = append(ops, fmt.Sprintf("get %s %d", hxs("absent"), 3), fmt.Sprintf("get %s %d", hxs(users[0]+"\x00"), maxTs))
		}
		steps := 3 + r.Intn(8)
		if c%8 == 5 {
			// many tables in one level, recovered from the directory (names sort "0-10" before "0-2"),
			// then more flushes: table names must stay unique whatever order the handles are in
			ops[0] = fmt.Sprintf("lm %d %d %d %d", 30, 1+r.Intn(3), bsz, low)
			nt := 11 + r.Intn(5)
			ts := 1
			for i := 0; i < nt; i++ {
				ops = append(ops, "flush "+sortedEntries([][2]any{{users[i%len(users)], ts}}))
				if (i+1)%len(users) == 0 {
					ts++
				}
			}
			ops = append(ops, fmt.Sprintf("recover %d", low))
			for i := 0; i < 3; i++ {
				ops = append(ops, "flush "+sortedEntries([][2]any{{users[i%len(users)], ts + 1 + i}}))
			}
			maxTs = ts + 4
			queries()
			tags["many-tables-recover"] = true
			steps = 1 + r.Intn(3)
		}
		if c%8 == 2 {
			// deep levels with a tombstone at a table boundary: table A ends with the tombstone k@2, table B starts with
			// the older k@1 (their key ranges do not overlap), small tables with keys below "a" push both down level by
			// level (capacity 1 per level); wherever A ends up, k stays deleted for every read at or above 2
			users = []string{"k", "a", "z"}
			low = 2 + r.Intn(5)
			ops[0] = fmt.Sprintf("lm 1 1 %d %d", []int{1, 20, 200}[r.Intn(3)], low)
			crafted := []string{
				"flush " + sortedEntries([][2]any{{"a", 5}, {"k", 2}}),
				"flush " + sortedEntries([][2]any{{"k", 1}, {"z", 1}}),
			}
			if r.Intn(2) == 0 {
				crafted[0], crafted[1] = crafted[1], crafted[0]
			}
			pushers := []string{"0", "1", "2", "3", "4", "5", "6", "7", "8", "9"}
			ci := 0
			for i := 0; i < 12+r.Intn(6); i++ {
				if ci < 2 && (r.Intn(3) == 0 || i > 5) {
					ops = append(ops, crafted[ci])
					ci++
				} else {
					ops = append(ops, "flush "+sortedEntries([][2]any{{pushers[r.Intn(len(pushers))], 3 + i}}))
				}
				if r.Intn(3) > 0 {
					ops = append(ops, "compact")
				}
			}
			maxTs = 8
			ops = append(ops, "compact")
			queries()
			tags["deep-levels-boundary-tombstone"] = true
			steps = 0
		}
		if c%8 == 3 {
			// user keys that are prefixes of one another with a next byte below '@' ("key" / "key1" / "key.x"): as versioned keys
			// ("key@7" / "key1@7") their byte order differs from the key order; many small tables, small levels, many
			// compactions, so that such keys end up first or last in the tables a compaction picks
			users = [][]string{{"a", "a1", "a2", "b", "b.x", "c"}, {"key", "key1", "key2", "m"}, {"k", "k!", "k0", "k@9", "l"}}[r.Intn(3)]
			ops[0] = fmt.Sprintf("lm %d %d %d %d", 1+r.Intn(2), 1+r.Intn(2), []int{1, 20, 200}[r.Intn(3)], low)
			maxTs = 9
			for i := 0; i < 8+r.Intn(10); i++ {
				var pairs [][2]any
				seen := map[string]bool{}
				for j := 0; j < 1+r.Intn(2); j++ {
					u := users[r.Intn(len(users))]
					if !seen[u] {
						seen[u] = true
						pairs = append(pairs, [2]any{u, 1 + i%9})
					}
				}
				ops = append(ops, "flush "+sortedEntries(pairs))
				if r.Intn(3) > 0 {
					ops = append(ops, "compact")
				}
				if r.Intn(4) == 0 {
					queries()
				}
			}
			queries()
			tags["prefix-keys-below-@"] = true
			steps = 1 + r.Intn(3)
		}
		if c%8 == 7 {
			// user keys that agree up to their first '@' (or are a prefix of one another) side by side in one table, the table
			// flushed, compacted and recovered: every filter has to know every one of them
			users = [][]string{{"a@", "a@1", "a@b@7"}, {"k@009", "k@10", "k@9", "k"}, {"a", "a@1", "a!", "ab"}, {"user:1", "user:1@x", "user:1@y"}}[r.Intn(4)]
			ops[0] = fmt.Sprintf("lm %d %d %d %d", 1+r.Intn(2), 1+r.Intn(3), []int{1, 20, 200, 4096}[r.Intn(4)], low)
			for rd := 0; rd < 2+r.Intn(3); rd++ {
				var pairs [][2]any
				for _, u := range users {
					if r.Intn(4) > 0 {
						pairs = append(pairs, [2]any{u, 1 + rd})
					}
				}
				if len(pairs) == 0 {
					pairs = append(pairs, [2]any{users[0], 1 + rd})
				}
				ops = append(ops, "flush "+sortedEntries(pairs))
				switch r.Intn(3) {
				case 0:
					ops = append(ops, "compact")
				case 1:
					ops = append(ops, fmt.Sprintf("recover %d", low))
				}
			}
			ops = append(ops, fmt.Sprintf("recover %d", low))
			maxTs = 6
			queries()
			tags["keys-agreeing-up-to-first-@"] = true
			steps = 1 + r.Intn(3)
		}
		if c%8 == 6 {
			// table names are reused (0-0, 0-1, … again once a compaction has emptied L0): rounds of same-shaped tables
			// (same users, two-digit timestamps, plain values: equal block offsets and lengths) with a compaction between
			// the rounds and no lookup in between — anything remembered about a table by its name is stale afterwards
			// (a compaction runs when a level holds more tables than its target: n tables against a target of n-1; L0 tables
			// are compacted together when their key ranges overlap the first one's)
			sort.Strings(users)
			split := len(users) >= 3 && r.Intn(3) > 0
			if split {
				// the middle user lives alone in the last table of every round, the outer two in the tables before it
				users = []string{users[1], users[0], users[len(users)-1]}
			} else if len(users) > 2 {
				users = users[:2]
			}
			n := 2 + r.Intn(2)
			ops[0] = fmt.Sprintf("lm %d %d %d 0", n-1, 1+r.Intn(3), []int{200, 4096}[r.Intn(2)])
			low = 0
			plain := func(ts int) bool {
				for _, u := range users {
					if (len(u)+ts*7)%5 == 0 || (len(u)+ts)%6 == 0 {
						return false
					}
				}
				return true
			}
			ts := 10
			next := func() int {
				for !plain(ts) {
					ts++
				}
				ts++
				return ts - 1
			}
			rounds := 2 + r.Intn(2)
			preGet := r.Intn(2) == 0
			// variant: the last table of every round holds one user of its own, the tables before it hold the others — the
			// first lookup after the reuse then goes straight to the last-named table (the bloom filters skip the rest)
			for rd := 0; rd < rounds; rd++ {
				for i := 0; i < n; i++ {
					t := next()
					var pairs [][2]any
					for j, u := range users {
						if split && (j == 0) != (i == n-1) {
							continue
						}
						pairs = append(pairs, [2]any{u, t})
					}
					ops = append(ops, "flush "+sortedEntries(pairs))
				}
				if rd < rounds-1 {
					if preGet && rd == 0 {
						// one point lookup right before the compaction: in the split variant it ends in the last-named table of the
						// round (the only one whose filter admits the user), so whatever a lookup remembers about a table by its
						// name or handle is about a file the compaction is going to delete and the next round re-creates
						ops = append(ops, fmt.Sprintf("get %s 99", hxs(users[0])))
					}
					ops = append(ops, "compact")
				}
			}
			maxTs = ts + 1
			// newest first: the very first lookup after the last round asks for the newest version of the first user
			ops = append(ops, fmt.Sprintf("get %s %d", hxs(users[0]), maxTs))
			for _, u := range users {
				ops = append(ops, fmt.Sprintf("get %s %d", hxs(u), maxTs))
			}
			queries()
			tags["table-name-reuse-same-shape"] = true
			steps = 0
		}
		for s := 0; s < steps; s++ {
			switch x := r.Intn(10); {
			case x < 6:
				var pairs [][2]any
				seen := map[string]bool{}
				cnt := 1 + r.Intn(6)
				for i := 0; i < cnt; i++ {
					u := users[r.Intn(len(users))]
					ts := 1 + r.Intn(maxTs)
					id := fmt.Sprintf("%s/%d", u, ts)
					if seen[id] {
						continue
					}
					seen[id] = true
					pairs = append(pairs, [2]any{u, ts})
				}
				ops = append(ops, "flush "+sortedEntries(pairs))
			case x < 9:
				ops = append(ops, "compact")
				tags["compact"] = true
				queries()
			default:
				nl := low + r.Intn(3)
				low = nl
				ops = append(ops, fmt.Sprintf("recover %d", nl))
				tags["recover"] = true
			}
		}
		ops = append(ops, "compact")
		queries()
		ops = append(ops, "tables")
		var tl []string
		for t := range tags {
			tl = append(tl, t)
		}
		if low > 0 {
			tl = append(tl, "low>0")
		}
		cases = append(cases, Case{Ops: ops, Tags: tl})
	}
	return cases
}
