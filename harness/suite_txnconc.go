package main

import (
	"fmt"
	"math/rand"
	"os"
	"runtime"
	"sort"
	"strconv"
	"strings"
	"sync"
	"sync/atomic"
	"time"

	originium "github.com/B1NARY-GR0UP/originium"
	"github.com/B1NARY-GR0UP/originium/pkg/vhook"
)

// ---------- txnconc : free-running goroutines, recorded history checked against the serial order ----------

func goid() int {
	var buf [64]byte
	n := runtime.Stack(buf[:], false)
	// "goroutine 123 ["
	f := strings.Fields(string(buf[:n]))
	id, _ := strconv.Atoi(f[1])
	return id
}

type txRec struct {
	beginSeq, endSeq int64
	readTs           uint64
	commitTs         uint64
	committed        bool
	reads            []string // hexkey=hexval|nf (store reads only)
	writes           map[string]string
	worder           []string
}

func (t *txRec) line() string {
	c := "c-"
	if t.committed {
		c = fmt.Sprintf("c%d", t.commitTs)
	}
	var ws []string
	for i := len(t.worder) - 1; i >= 0; i-- {
		k := t.worder[i]
		ws = append(ws, k+"="+t.writes[k])
	}
	return fmt.Sprintf("b%d,e%d,r%d,%s,R%s,W%s", t.beginSeq, t.endSeq, t.readTs, c, strings.Join(t.reads, "|"), strings.Join(ws, "|"))
}

// txnconcExec: "conc <goroutines> <txnsPerGoroutine> <keys> <memThreshold> <immBuf> <seed> <workload>"
func txnconcExec(ops []string) (dops []string, res []string) {
	for _, op := range ops {
		t := strings.Split(op, " ")
		if t[0] != "conc" {
			continue
		}
		a := func(i int) int { v, _ := strconv.Atoi(t[i]); return v }
		ng, per, nkeys, memthr, immbuf, seed := a(1), a(2), a(3), a(4), a(5), int64(a(6))
		workload := t[7]
		dir, err := os.MkdirTemp("", "vconc")
		if err != nil {
			panic(err)
		}
		var clock int64
		var mu sync.Mutex
		cur := map[int]*txRec{}
		// every other case: the background work is stretched at its file-system operations (a few milliseconds before a table
		// file is created, written, synced, renamed, removed), so that lookups and commits fall inside a flush or a compaction
		var jmu sync.Mutex
		jr := rand.New(rand.NewSource(seed ^ 0x5eed))
		jitter := func(op, path string, n int) {
			if seed%2 == 0 || !(strings.HasSuffix(path, ".db") || strings.HasSuffix(path, ".tmp")) {
				return
			}
			jmu.Lock()
			d := time.Duration(jr.Intn(3000)) * time.Microsecond
			jmu.Unlock()
			time.Sleep(d)
		}
		vhook.Install(&vhook.Handlers{FS: jitter, Event: func(name string, args ...any) {
			if name == "commit.ts" {
				id := goid()
				mu.Lock()
				if r := cur[id]; r != nil {
					r.commitTs = args[0].(uint64)
					r.committed = true
				}
				mu.Unlock()
			}
		}})
		db, err := originium.Open(dir, originium.Config{SkipListMaxLevel: 4, SkipListP: 0.5, MemtableByteThreshold: memthr,
			DataBlockByteThreshold: 40, L0TargetNum: 2, LevelRatio: 2, ImmutableBuffer: immbuf})
		if err != nil {
			panic(err)
		}
		keys := make([]string, nkeys)
		for i := range keys {
			keys[i] = fmt.Sprintf("acct%d", i)
		}
		// initial balances
		db.Update(func(tx *originium.Txn) error {
			for _, k := range keys {
				tx.Set(k, []byte("100"))
			}
			return nil
		})
		var all []*txRec
		var wg sync.WaitGroup
		var panics atomic.Value
		for g := 0; g < ng; g++ {
			wg.Add(1)
			go func(g int) {
				defer wg.Done()
				defer func() {
					if p := recover(); p != nil {
						panics.Store(fmt.Sprintf("%v", p))
					}
				}()
				id := goid()
				r := rand.New(rand.NewSource(seed*1000 + int64(g)))
				for i := 0; i < per; i++ {
					rec := &txRec{writes: map[string]string{}}
					rec.beginSeq = atomic.AddInt64(&clock, 1)
					update := (workload != "readers" && workload != "deleters") || g%2 == 0
					tx := db.Begin(update)
					rec.readTs = tx.VerifReadTs()
					mu.Lock()
					cur[id] = rec
					mu.Unlock()
					get := func(k string) (int, bool) {
						_, own := rec.writes[hxs(k)]
						v, ok := tx.Get(k)
						if !own {
							if ok {
								rec.reads = append(rec.reads, hxs(k)+"="+hx(v))
							} else {
								rec.reads = append(rec.reads, hxs(k)+"=nf")
							}
						}
						n, _ := strconv.Atoi(string(v))
						return n, ok
					}
					set := func(k string, n int) {
						hk := hxs(k)
						if _, ok := rec.writes[hk]; !ok {
							rec.worder = append(rec.worder, hk)
						}
						rec.writes[hk] = hxs(strconv.Itoa(n))
						tx.Set(k, []byte(strconv.Itoa(n)))
					}
					del := func(k string) {
						hk := hxs(k)
						if _, ok := rec.writes[hk]; !ok {
							rec.worder = append(rec.worder, hk)
						}
						rec.writes[hk] = "nf"
						tx.Delete(k)
					}
					switch {
					case !update && workload == "deleters":
						// a reader that looks at every key twice, with a pause in which the others delete, rotate, flush and compact:
						// both looks are reads of the one snapshot
						for _, k := range keys {
							get(k)
						}
						time.Sleep(time.Duration(1+r.Intn(4)) * time.Millisecond)
						for _, k := range keys {
							get(k)
						}
					case !update:
						// a reader: total must be conserved inside one snapshot
						for _, k := range keys {
							get(k)
						}
					case workload == "deleters":
						// toggle a key: delete it when it is there, write it when it is not
						k := keys[r.Intn(nkeys)]
						if n, ok := get(k); ok {
							del(k)
						} else {
							set(k, n+1)
						}
					case workload == "transfer" || workload == "readers":
						x, y := keys[r.Intn(nkeys)], keys[r.Intn(nkeys)]
						if x != y {
							bx, _ := get(x)
							by, _ := get(y)
							amt := r.Intn(10)
							set(x, bx-amt)
							set(y, by+amt)
						}
					case workload == "counter":
						k := keys[r.Intn(nkeys)]
						n, _ := get(k)
						set(k, n+1)
					case workload == "skew":
						// write skew pair: read both, write one only if the sum allows it
						x, y := keys[0], keys[1]
						bx, _ := get(x)
						by, _ := get(y)
						if bx+by >= 100 {
							if g%2 == 0 {
								set(x, bx-100)
							} else {
								set(y, by-100)
							}
						}
					}
					if r.Intn(10) == 0 {
						runtime.Gosched()
					}
					var err error
					if update && r.Intn(15) != 0 {
						err = tx.Commit()
					} else {
						tx.Discard()
					}
					_ = err
					mu.Lock()
					cur[id] = nil
					mu.Unlock()
					rec.endSeq = atomic.AddInt64(&clock, 1)
					if !rec.committed {
						rec.writes = map[string]string{}
						rec.worder = nil
					}
					mu.Lock()
					all = append(all, rec)
					mu.Unlock()
				}
			}(g)
		}
		done := make(chan struct{})
		go func() { wg.Wait(); close(done) }()
		select {
		case <-done:
		case <-time.After(120 * time.Second):
			panic("HANG: concurrent transactions did not finish within 120 s\n" + allStacks())
		}
		vhook.Install(nil)
		if p := panics.Load(); p != nil {
			panic("panic in a transaction goroutine: " + p.(string))
		}
		// invariants of the workloads, read by a final transaction
		final := ""
		db.View(func(tx *originium.Txn) error {
			sum := 0
			for _, k := range keys {
				v, _ := tx.Get(k)
				n, _ := strconv.Atoi(string(v))
				sum += n
			}
			final = strconv.Itoa(sum)
			return nil
		})
		closeWatched(db, "txnconc suite")
		db.VerifStopOracle()
		os.RemoveAll(dir)
		sort.Slice(all, func(i, j int) bool { return all[i].beginSeq < all[j].beginSeq })
		// the initial transaction
		init := &txRec{beginSeq: 0, endSeq: 0, readTs: 0, commitTs: 1, committed: true, writes: map[string]string{}}
		for _, k := range keys {
			init.worder = append(init.worder, hxs(k))
			init.writes[hxs(k)] = hxs("100")
		}
		lines := []string{init.line()}
		for _, r := range all {
			lines = append(lines, r.line())
		}
		dops = append(dops, "hist "+strings.Join(lines, ";"))
		res = append(res, "ok")
		if workload == "transfer" || workload == "readers" {
			if final != strconv.Itoa(100*nkeys) {
				// money was created or destroyed: report as a property-level failure on the history line
				res[len(res)-1] = "ok-but-total=" + final
			}
		}
	}
	return dops, res
}

func txnconcGen(r *rand.Rand, n int) []Case {
	var cases []Case
	wl := []string{"transfer", "counter", "skew", "readers", "deleters"}
	for c := 0; c < n; c++ {
		w := wl[c%len(wl)]
		op := fmt.Sprintf("conc %d %d %d %d %d %d %s", 4+r.Intn(13), 20+r.Intn(40), 2+r.Intn(3), []int{80, 200, 1000, 100000}[r.Intn(4)], r.Intn(3), r.Intn(1<<20), w)
		cases = append(cases, Case{Ops: []string{op}, Tags: []string{"workload:" + w}})
	}
	return cases
}
