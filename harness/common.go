package main

import (
	"bufio"
	"bytes"
	"crypto/sha256"
	"encoding/hex"
	"encoding/json"
	"fmt"
	"math/rand"
	"os"
	"os/exec"
	"runtime"
	"runtime/debug"
	"sort"
	"strings"
	"time"
)

// ---------- line protocol helpers ----------

func hx(b []byte) string {
	if len(b) == 0 {
		return "-"
	}
	return hex.EncodeToString(b)
}

func hxs(s string) string { return hx([]byte(s)) }

func unhx(s string) []byte {
	if s == "-" {
		return nil
	}
	b, err := hex.DecodeString(s)
	if err != nil {
		panic(err)
	}
	return b
}

func b01(b bool) string {
	if b {
		return "1"
	}
	return "0"
}

// ---------- driver ----------

var driverPath = "/verif/lean/.lake/build/bin/driver"

// runDriver feeds the lines to `driver <suite>` and returns one output line per input line.
func runDriver(suite string, lines []string) ([]string, error) {
	var out, errb bytes.Buffer
	for attempt := 0; ; attempt++ {
		cmd := exec.Command(driverPath, suite)
		var in bytes.Buffer
		for _, l := range lines {
			in.WriteString(l)
			in.WriteByte('\n')
		}
		cmd.Stdin = &in
		out.Reset()
		errb.Reset()
		cmd.Stdout = &out
		cmd.Stderr = &errb
		err := cmd.Run()
		if err == nil {
			break
		}
		// the driver executable is replaced when another check relinks it: not there or busy for a moment
		if _, statErr := os.Stat(driverPath); (statErr != nil || strings.Contains(err.Error(), "text file busy") || strings.Contains(err.Error(), "no such file")) && attempt < 30 {
			time.Sleep(time.Second)
			continue
		}
		return nil, fmt.Errorf("driver %s: %v: %s", suite, err, errb.String())
	}
	var res []string
	sc := bufio.NewScanner(&out)
	sc.Buffer(make([]byte, 1<<20), 1<<28)
	for sc.Scan() {
		res = append(res, sc.Text())
	}
	if len(res) != len(lines) {
		return res, fmt.Errorf("driver %s: %d lines in, %d lines out", suite, len(lines), len(res))
	}
	return res, nil
}

// ---------- generic differential suite ----------

// A Case is an operation sequence in the line protocol. exec runs the real implementation on it and
// returns one result line per operation ("" = nothing to compare for this line).
type Case struct {
	Ops  []string
	Tags []string // what makes the case non trivial (for evidence)
}

type Mismatch struct {
	Kind    string   `json:"kind"` // impl-vs-model | impl-vs-spec | model-vs-spec | crash
	Case    int      `json:"case"`
	OpIndex int      `json:"op_index"`
	Op      string   `json:"op"`
	Impl    string   `json:"impl"`
	Model   string   `json:"model"`
	Ops     []string `json:"ops"` // minimised sequence
}

type Result struct {
	Suite              string         `json:"suite"`
	Seed               int64          `json:"seed"`
	Tier               string         `json:"tier"`
	Cases              int            `json:"cases"`
	Evaluations        int            `json:"evaluations"`
	DistinctNontrivial int            `json:"distinct_nontrivial"`
	Rule               string         `json:"rule"`
	Counters           map[string]int `json:"counters"`
	Samples            []any          `json:"samples"`
	Mismatches         []Mismatch     `json:"mismatches"`
	Notes              []string       `json:"notes,omitempty"`
	shrunk             int
	WallS              float64        `json:"wall_s"`
}

type Suite struct {
	Name string
	Rule string
	// Exec runs the implementation on the generator's ops and returns the transcript for the model
	// (dops: the lines sent to the driver, one result line each; for most suites dops = ops).
	// A result line starting with '~' is a detail-level observation (internal layout), the others
	// are results the property itself constrains.
	Exec        func(ops []string) (dops []string, res []string)
	DriverSuite string
}

func newResult(suite string, seed int64, tier string) *Result {
	return &Result{Suite: suite, Seed: seed, Tier: tier, Counters: map[string]int{}}
}

func (r *Result) count(k string, n int) { r.Counters[k] += n }

func caseHash(ops []string) string {
	h := sha256.Sum256([]byte(strings.Join(ops, "\n")))
	return hex.EncodeToString(h[:8])
}

// safeExec runs exec and converts a panic into a result line
// caseTimeout: when positive, a case that does not finish within it is reported as a hang (the goroutine stacks are the
// replay) and the suite stops there; set for the suites whose interpreter has no watchdog of its own around the calls
var caseTimeout time.Duration

func safeExec(exec func([]string) ([]string, []string), ops []string) (dops, res []string, crashed string) {
	if caseTimeout > 0 {
		type out struct {
			dops, res []string
			crashed   string
		}
		ch := make(chan out, 1)
		go func() {
			var o out
			defer func() {
				if p := recover(); p != nil {
					o.crashed = fmt.Sprintf("%v\n%s", p, debug.Stack())
				}
				ch <- o
			}()
			o.dops, o.res = exec(ops)
		}()
		select {
		case o := <-ch:
			return o.dops, o.res, o.crashed
		case <-time.After(caseTimeout):
			return nil, nil, fmt.Sprintf("HANG: the case did not finish within %v\n%s", caseTimeout, allStacks())
		}
	}
	defer func() {
		if p := recover(); p != nil {
			crashed = fmt.Sprintf("%v\n%s", p, debug.Stack())
		}
	}()
	dops, res = exec(ops)
	return dops, res, ""
}

// same wraps an interpreter whose driver ops are the generator ops
func same(f func([]string) []string) func([]string) ([]string, []string) {
	return func(ops []string) ([]string, []string) { return ops, f(ops) }
}

// runCases executes all cases on implementation and model and records the first mismatch of each case (minimised).
// shardK/shardN: -shard k/n, see main
var shardK, shardN = 0, 1

func runCases(s Suite, cases []Case, r *Result) {
	if shardN > 1 {
		var mine []Case
		for i, c := range cases {
			if i%shardN == shardK {
				mine = append(mine, c)
			}
		}
		cases = mine
	}
	seen := map[string]bool{}
	var all []string
	implRes := make([][]string, len(cases))
	dopsAll := make([][]string, len(cases))
	for i, c := range cases {
		dops, res, crashed := safeExec(s.Exec, c.Ops)
		if crashed != "" {
			if strings.HasPrefix(crashed, "HANG") {
				// goroutines of this case are stuck for good: report it and stop the suite here
				r.Mismatches = append(r.Mismatches, Mismatch{Kind: "crash", Case: i, Impl: crashed, Ops: c.Ops})
				r.Notes = append(r.Notes, "suite stopped after a hang")
				implRes = implRes[:i]
				dopsAll = dopsAll[:i]
				cases = cases[:i]
				break
			}
			ops := c.Ops
			if r.shrunk < 3 {
				r.shrunk++
				ops = shrinkCrash(s, c.Ops)
			}
			r.Mismatches = append(r.Mismatches, Mismatch{Kind: "crash", Case: i, Impl: crashed, Ops: ops})
			dops, res = nil, nil
		}
		implRes[i] = res
		dopsAll[i] = dops
		if dump := os.Getenv("VERIF_DUMP"); dump != "" {
			var sb strings.Builder
			for j := range dops {
				r0 := ""
				if j < len(res) {
					r0 = res[j]
				}
				sb.WriteString(dops[j] + "  =>  " + r0 + "\n")
			}
			os.WriteFile(fmt.Sprintf("%s.%d", dump, i), []byte(sb.String()), 0644)
		}
		for _, d := range dops {
			k := d
			if j := strings.IndexByte(d, ' '); j > 0 {
				k = d[:j]
			}
			r.count("op:"+k, 1)
		}
		all = append(all, dops...)
		r.Evaluations += len(dops)
		h := caseHash(c.Ops)
		if !seen[h] && len(c.Tags) > 0 {
			r.DistinctNontrivial++
		}
		seen[h] = true
		for _, t := range c.Tags {
			r.count("tag:"+t, 1)
		}
	}
	r.Cases += len(cases)
	out, err := runDriver(s.DriverSuite, all)
	if err != nil {
		r.Mismatches = append(r.Mismatches, Mismatch{Kind: "driver-failure", Impl: err.Error()})
		return
	}
	off := 0
	for i, c := range cases {
		// the first mismatch on a result the property constrains is preferred over an earlier
		// detail-level (internal layout) mismatch: it is a concrete failing input
		var first *Mismatch
		for j := range dopsAll[i] {
			if mm, bad := compareLine(dopsAll[i][j], implRes[i][j], out[off+j]); bad {
				mm.Case, mm.OpIndex = i, j
				if first == nil {
					m2 := mm
					first = &m2
				}
				if mm.Kind != "impl-vs-model-detail" {
					m2 := mm
					first = &m2
					break
				}
			}
		}
		if first != nil {
			want := first.Kind
			if r.shrunk < 3 {
				// minimise the first few failing cases only (each minimisation re-executes the case many times)
				r.shrunk++
				first.Ops = shrinkWith(c.Ops, func(o []string) bool { return differsKind(s, o, want) })
			} else {
				first.Ops = c.Ops
			}
			r.Mismatches = append(r.Mismatches, *first)
		}
		off += len(dopsAll[i])
	}
	if len(r.Samples) < 3 && len(cases) > 0 {
		c := cases[len(cases)/2]
		n := len(c.Ops)
		if n > 12 {
			n = 12
		}
		r.Samples = append(r.Samples, map[string]any{"suite": s.Name, "ops_head": c.Ops[:n], "ops_total": len(c.Ops), "tags": c.Tags})
	}
}

func compareLine(op, impl, model string) (Mismatch, bool) {
	if strings.HasPrefix(model, "MODEL-SPEC-MISMATCH") {
		return Mismatch{Kind: "model-vs-spec", Op: op, Impl: impl, Model: model}, true
	}
	if impl == "" {
		return Mismatch{}, false
	}
	if strings.HasPrefix(impl, "~") {
		if impl[1:] != model {
			return Mismatch{Kind: "impl-vs-model-detail", Op: op, Impl: impl[1:], Model: model}, true
		}
		return Mismatch{}, false
	}
	if impl != model {
		return Mismatch{Kind: "impl-vs-model", Op: op, Impl: impl, Model: model}, true
	}
	return Mismatch{}, false
}

// differs reports whether implementation and model disagree somewhere on ops
func differs(s Suite, ops []string) bool {
	dops, res, crashed := safeExec(s.Exec, ops)
	if crashed != "" {
		return true
	}
	out, err := runDriver(s.DriverSuite, dops)
	if err != nil {
		return false
	}
	for j := range dops {
		if _, bad := compareLine(dops[j], res[j], out[j]); bad {
			return true
		}
	}
	return false
}

// differsKind: some line differs with the given kind (detail-level or property-level)
func differsKind(s Suite, ops []string, kind string) bool {
	dops, res, crashed := safeExec(s.Exec, ops)
	if crashed != "" {
		return false
	}
	out, err := runDriver(s.DriverSuite, dops)
	if err != nil {
		return false
	}
	for j := range dops {
		if mm, bad := compareLine(dops[j], res[j], out[j]); bad && mm.Kind == kind {
			return true
		}
	}
	return false
}

func crashes(s Suite, ops []string) bool {
	_, _, crashed := safeExec(s.Exec, ops)
	return crashed != ""
}

func shrinkCrash(s Suite, ops []string) []string {
	return shrinkWith(ops, func(o []string) bool { return crashes(s, o) })
}

// shrink: delta debugging on the op list (the first op of a case is its header and is kept)
func shrink(s Suite, ops []string) []string {
	return shrinkWith(ops, func(o []string) bool { return differs(s, o) })
}

func shrinkWith(ops []string, bad func([]string) bool) []string {
	if len(ops) <= 2 || !bad(ops) {
		return ops
	}
	cur := append([]string(nil), ops...)
	deadline := time.Now().Add(20 * time.Second)
	chunk := len(cur) / 2
	for chunk >= 1 && time.Now().Before(deadline) {
		removed := false
		for start := 1; start+chunk <= len(cur); {
			cand := append(append([]string(nil), cur[:start]...), cur[start+chunk:]...)
			if len(cand) >= 2 && bad(cand) {
				cur = cand
				removed = true
			} else {
				start += chunk
			}
			if !time.Now().Before(deadline) {
				break
			}
		}
		if !removed {
			chunk /= 2
		}
	}
	return cur
}

// ---------- output ----------

func writeResult(r *Result, path string, start time.Time) {
	r.WallS = time.Since(start).Seconds()
	if r.Mismatches == nil {
		r.Mismatches = []Mismatch{}
	}
	if r.Samples == nil {
		r.Samples = []any{}
	}
	b, _ := json.MarshalIndent(r, "", " ")
	if path == "" || path == "-" {
		fmt.Println(string(b))
		return
	}
	if err := os.WriteFile(path, b, 0644); err != nil {
		fmt.Fprintln(os.Stderr, err)
		os.Exit(3)
	}
}

func sortedKeys(m map[string]int) []string {
	var ks []string
	for k := range m {
		ks = append(ks, k)
	}
	sort.Strings(ks)
	return ks
}

// ---------- generators shared by suites ----------

// adversarial user keys: contain '@', bytes below '@', shared prefixes, look like versioned keys
var userKeys = []string{"a", "b", "a@1", "a!", "ab", "k@10", "k@9", "k", "z", "a@", "@", "a@b@7", "\x00", "a\x00", "~", "aa", "k@009", "user:1", "a\x00b", "k\xff", "k\x00"}

// pairs of keys whose 64-bit murmur3 hashes (utils.Hash) agree in the low / the high 32 bits: whatever fingerprint of a key
// the engine may keep instead of the key, these collide in it sooner than others
var collidingKeys = [][2]string{{"acct-54031", "acct-134332"}, {"acct-125260", "acct-147298"}, {"acct-18568", "acct-150543"},
	{"acct-30211", "acct-81225"}, {"acct-31162", "acct-82408"}, {"acct-90969", "acct-104726"}}

// subsetKeys: n keys of the universe in random order (every generator works on a small universe so that keys collide; which
// keys it is made of changes from case to case, so that over a run every special key takes part)
func subsetKeys(r *rand.Rand, n int) []string {
	if n > len(userKeys) {
		n = len(userKeys)
	}
	perm := r.Perm(len(userKeys))
	var ks []string
	for i := 0; i < n; i++ {
		ks = append(ks, userKeys[perm[i]])
	}
	return ks
}

// caseKeys, when set, replaces the front of the key universe for the case being generated
var caseKeys []string

func pickKey(r *rand.Rand, n int) string {
	if len(caseKeys) > 0 && r.Intn(5) > 0 {
		return caseKeys[r.Intn(len(caseKeys))]
	}
	if n > len(userKeys) {
		n = len(userKeys)
	}
	if r.Intn(40) == 0 {
		// random binary key
		b := make([]byte, 1+r.Intn(6))
		for i := range b {
			b[i] = byte(r.Intn(256))
		}
		return string(b)
	}
	if r.Intn(60) == 0 {
		// a long key (beyond 64 / 128 / 256 bytes), few distinct ones so that they collide and get overwritten
		n := []int{65, 70, 129, 260}[r.Intn(4)]
		return strings.Repeat("L", n-1) + string(rune('a'+r.Intn(3)))
	}
	return userKeys[r.Intn(n)]
}

func pickValue(r *rand.Rand, tag int) []byte {
	switch r.Intn(8) {
	case 0:
		return []byte{}
	case 1:
		b := make([]byte, r.Intn(40))
		for i := range b {
			b[i] = byte(r.Intn(256))
		}
		return b
	default:
		return []byte(fmt.Sprintf("v%d", tag))
	}
}

// closeWatched calls Close under a watchdog: a Close that does not return is reported with the goroutine stacks
func closeWatched(closer interface{ Close() }, what string) {
	done := make(chan struct{})
	var panicked any
	go func() {
		defer close(done)
		defer func() { panicked = recover() }()
		closer.Close()
	}()
	select {
	case <-done:
		if panicked != nil {
			panic(panicked)
		}
	case <-time.After(60 * time.Second):
		panic("HANG: Close did not return within 60 s (" + what + ")\n" + allStacks())
	}
}

func allStacks() string {
	buf := make([]byte, 1<<16)
	n := runtime.Stack(buf, true)
	return string(buf[:n])
}

func itoa(n int) string { return fmt.Sprintf("%d", n) }
