module verifharness

go 1.24

require (
	github.com/B1NARY-GR0UP/originium v0.0.0
	github.com/klauspost/compress v1.17.11
	github.com/spaolacci/murmur3 v1.1.0
)

require (
	github.com/apache/thrift v0.19.0 // indirect
	github.com/bytedance/gopkg v0.1.1 // indirect
	github.com/cloudwego/frugal v0.2.1 // indirect
	github.com/cloudwego/gopkg v0.1.2 // indirect
)

replace github.com/B1NARY-GR0UP/originium => /repo

replace github.com/apache/thrift => github.com/apache/thrift v0.13.0
