package main

import (
	"math/rand"

	"github.com/B1NARY-GR0UP/originium/pkg/filter"
	"github.com/B1NARY-GR0UP/originium/types"
)

func runMoreSuites(suite string, r *rand.Rand, res *Result, thorough bool) bool {
	scale := func(q, t int) int {
		if thorough {
			return t
		}
		return q
	}
	switch suite {
	case "levels":
		s := Suite{Name: "levels", DriverSuite: "levels", Exec: levelsExec}
		res.Rule = "random table layouts through the verif level manager (flushToL0 / checkAndCompact / recover / searchLowerBound): 1-5 user keys x 2-9 versions, block sizes 1..200 bytes, L0TargetNum 1-4, LevelRatio 1-3, watermark 0..maxTs+1; after every compaction every (key, ts) of the universe is looked up; non-trivial = the case compacts, recovers, uses one-entry blocks or a positive watermark"
		runCases(s, levelsGen(r, scale(150, 2500), false), res)
		runCases(s, levelsGen(r, scale(100, 2500), true), res)
	case "db":
		s := Suite{Name: "db", DriverSuite: "db", Exec: dbExec}
		res.Rule = "random interleavings of up to 6 open transactions (Begin/Get/Set/Delete/Commit/Discard, misuse of finished handles, oversize values) over 3-8 adversarial keys on a real DB with tiny thresholds (memtable 60-2000 B, blocks 1-200 B, L0TargetNum 1-4, LevelRatio 1-4, ImmutableBuffer 0-3); the flusher is gated by the hooks and released by generator ops, so rotation, flush-add, compaction and flush-remove fall between the API calls the generator chooses; Close/Open cycles with a re-drawn configuration; DB.Update closures that succeed, fail or panic; a read-only transaction beginning while a Commit is held right after it got its timestamp (Begin must wait for it); every API result, every table content and every watermark value is replayed through the Lean model; non-trivial = concurrent transactions, discard, misuse or reopen"
		runCases(s, dbGen(r, scale(40, 600), scale(120, 250), true), res)
		runCases(s, dbGenManyTables(r, scale(4, 60)), res)
	case "closerace":
		s := Suite{Name: "closerace", DriverSuite: "sched", Exec: closeraceExec}
		res.Rule = "1-6 writer goroutines committing unique keys as fast as they can with rotation on (almost) every commit, 0-4 reader goroutines, a flusher slowed down by the hook, ImmutableBuffer in {0,1,2,10}, and a Close fired after 0-11 ms while they run; every call runs under a watchdog (15 s, goroutine stacks as replay); writers must get nil or ErrDBClosed; the lock-region events (commit timestamp assigned, batch applied with/without rotation, commit done, Close holds writeLock, flusher drained, Close done) and the flusher's flush.done are followed in the Lean blocking model Sched (subset construction over its hidden steps): the observed execution must be one of the model's; after Close the directory is reopened and every acknowledged commit read back; non-trivial = every case"
		runCases(s, closeraceGen(r, scale(40, 600)), res)
	case "crash":
		s := Suite{Name: "crash", DriverSuite: "disk", Exec: crashExec}
		res.Rule = "workloads of 14-29 multi-key transactions (Set/Delete, 1-4 keys) with thresholds that force rotations, flushes and multi-level compactions, Close/Open in between (one workload in three keeps more than ten tables in level 0 across restarts, one in three closes with flushes pending); every file-system operation (create, write, sync, rename, remove of wal, temporary and table files, from every goroutine) is serialised by the hooks and (1) replayed as an event through the Lean acceptance check Disk.accept and through the program model Prog.act (the trace must be a trace of the modelled engine, compaction plans and Open's directory listing included), (2) preceded by a crash image of the directory which is opened by the real Open and compared with the model's recovery of the same prefix and with the acknowledged state (in-flight transaction all or nothing); images with unsynced tails cut at several lengths; the recovery of every third image continues the trace after the crash (rule book and program model); crash again inside the recovery of an image, also with the recovery's own unsynced writes lost; a commit after recovery on a sample; non-trivial = every case"
		runCases(s, crashGen(r, scale(4, 32), thorough), res)
	case "txnconc":
		s := Suite{Name: "txnconc", DriverSuite: "hist", Exec: txnconcExec}
		res.Rule = "4-16 free-running goroutines on 2-4 shared keys (bank transfers, counters, write-skew pairs, long readers) with rotation and flush forced by small memtables and every flush-queue length; the recorded history (begin/end order, read timestamps, store reads, writes, commit timestamps from the hook) is checked by the Lean history checker: commit order explains every read, real-time order respected; transfer totals conserved; non-trivial = every case (distinct seeds/workloads)"
		runCases(s, txnconcGen(r, scale(10, 100)), res)
	case "codec":
		s := Suite{Name: "codec", DriverSuite: "codec", Exec: codecExec}
		res.Rule = "encoders/decoders of data, index, footer, meta blocks (S2 removed), whole tables through table.Build and the recovery parser (complete and cut files), wal batches and their read-back at random cut lengths, concurrent encoders whose results are re-checked afterwards, key/value lengths around 2^16; non-trivial = every case (distinct inputs) carries at least one of these tags"
		runCases(s, codecGen(r, scale(60, 1500), true), res)
	default:
		return false
	}
	return true
}

func moreSuiteByName(name string) (Suite, bool) {
	switch name {
	case "levels":
		return Suite{Name: "levels", DriverSuite: "levels", Exec: levelsExec}, true
	case "codec":
		return Suite{Name: "codec", DriverSuite: "codec", Exec: codecExec}, true
	case "db":
		return Suite{Name: "db", DriverSuite: "db", Exec: dbExec}, true
	case "txnconc":
		return Suite{Name: "txnconc", DriverSuite: "hist", Exec: txnconcExec}, true
	case "crash":
		return Suite{Name: "crash", DriverSuite: "disk", Exec: crashExec}, true
	case "closerace":
		return Suite{Name: "closerace", DriverSuite: "sched", Exec: closeraceExec}, true
	}
	return Suite{}, false
}

// filterDims checks that filter.New never produces an empty bitset (m > 0) for n = 1..max
func filterDims(res *Result, max int) {
	bad := 0
	for n := 1; n <= max; n++ {
		f := filter.New(n, 0.01)
		m, k := f.VerifDims()
		if m <= 0 || k < 0 {
			bad++
			res.Mismatches = append(res.Mismatches, Mismatch{Kind: "impl-vs-model", Op: "filter.New", Impl: "m<=0", Ops: []string{"n=" + itoa(n)}})
		}
	}
	_ = types.Entry{}
	res.count("filter-dims-checked", max)
	res.Evaluations += max
}
