package main

import "math/rand"

func runMoreSuites(suite string, r *rand.Rand, res *Result, thorough bool) bool {
	return false
}

// filterDims checks that filter.New never produces an empty bitset (m > 0) for n = 1..max
func filterDims(res *Result, max int) {
}
