package main

import (
	"sync"
	"sync/atomic"
	"context"
	"fmt"
	"math/rand"
	"strconv"
	"strings"
	"time"

	"github.com/B1NARY-GR0UP/originium/pkg/filter"
	"github.com/B1NARY-GR0UP/originium/pkg/skiplist"
	"github.com/B1NARY-GR0UP/originium/pkg/watermark"
	"github.com/B1NARY-GR0UP/originium/types"
	"github.com/spaolacci/murmur3"
)

// ---------- key : types/types.go ----------

func catchPanic(f func() string) (res string) {
	defer func() {
		if p := recover(); p != nil {
			res = "panic"
		}
	}()
	return f()
}

func keyExec(ops []string) []string {
	res := make([]string, len(ops))
	for i, op := range ops {
		t := strings.Split(op, " ")
		switch t[0] {
		case "kwt":
			ts, _ := strconv.ParseUint(t[2], 10, 64)
			res[i] = hxs(types.KeyWithTs(string(unhx(t[1])), ts))
		case "pk":
			res[i] = catchPanic(func() string { return hxs(types.ParseKey(string(unhx(t[1])))) })
		case "pt":
			res[i] = catchPanic(func() string { return strconv.FormatUint(types.ParseTs(string(unhx(t[1]))), 10) })
		case "cmp":
			res[i] = catchPanic(func() string {
				return strconv.Itoa(types.CompareKeys(string(unhx(t[1])), string(unhx(t[2]))))
			})
		case "same":
			res[i] = catchPanic(func() string { return b01(types.IsSameKey(string(unhx(t[1])), string(unhx(t[2])))) })
		case "vcmp":
			t1, _ := strconv.ParseUint(t[2], 10, 64)
			t2, _ := strconv.ParseUint(t[4], 10, 64)
			res[i] = strconv.Itoa(types.CompareKeys(types.KeyWithTs(string(unhx(t[1])), t1), types.KeyWithTs(string(unhx(t[3])), t2)))
		}
	}
	return res
}

var tsPool = []uint64{0, 1, 2, 9, 10, 11, 99, 100, 1<<31 - 1, 1 << 31, 1<<32 - 1, 1 << 32, 1<<63 - 1, 1 << 63, 1<<63 + 1, 1<<64 - 1}

func pickTs(r *rand.Rand) uint64 {
	if r.Intn(3) == 0 {
		return tsPool[r.Intn(len(tsPool))]
	}
	return uint64(r.Intn(30))
}

// rawKeyStrings: arbitrary strings handed to ParseKey/ParseTs/CompareKeys, canonical or not
func rawKey(r *rand.Rand) string {
	suffixes := []string{"", "@", "@1", "@10", "@9", "@007", "@7", "@+5", "@-1", "@18446744073709551615", "@18446744073709551616", "@99999999999999999999999", "@1a", "@ 1", "@1@2", "@@", "@1_0", "@\x00"}
	return pickKey(r, 18) + suffixes[r.Intn(len(suffixes))]
}

func keyGen(r *rand.Rand, n int) []Case {
	var cases []Case
	for c := 0; c < n; c++ {
		var ops []string
		tags := map[string]bool{}
		for i := 0; i < 40; i++ {
			switch r.Intn(6) {
			case 0:
				ops = append(ops, fmt.Sprintf("kwt %s %d", hxs(pickKey(r, 18)), pickTs(r)))
			case 1:
				k := rawKey(r)
				if !strings.Contains(k, "@") {
					tags["parsekey-panic"] = true
				}
				ops = append(ops, "pk "+hxs(k))
			case 2:
				ops = append(ops, "pt "+hxs(rawKey(r)))
			case 3:
				a, b := rawKey(r), rawKey(r)
				if !strings.Contains(a, "@") || !strings.Contains(b, "@") {
					tags["cmp-panic"] = true
				} else {
					tags["cmp-raw"] = true
				}
				ops = append(ops, fmt.Sprintf("cmp %s %s", hxs(a), hxs(b)))
			case 4:
				ops = append(ops, fmt.Sprintf("same %s %s", hxs(rawKey(r)), hxs(rawKey(r))))
			case 5:
				u1 := pickKey(r, 18)
				u2 := u1
				if r.Intn(2) == 0 {
					u2 = pickKey(r, 18)
				} else {
					tags["vcmp-same-user"] = true
				}
				ops = append(ops, fmt.Sprintf("vcmp %s %d %s %d", hxs(u1), pickTs(r), hxs(u2), pickTs(r)))
			}
		}
		var tl []string
		for t := range tags {
			tl = append(tl, t)
		}
		cases = append(cases, Case{Ops: ops, Tags: tl})
	}
	return cases
}

// ---------- filter : pkg/filter/filter.go ----------

func murmurs(key string, k int) string {
	if k == 0 {
		return "-"
	}
	var hs []string
	for i := 0; i < k; i++ {
		hs = append(hs, strconv.FormatUint(uint64(murmur3.Sum32WithSeed([]byte(key), uint32(i))), 10))
	}
	return strings.Join(hs, ",")
}

// ops: "build <n> <key>*" is expanded by the generator into new/add lines for the driver, so the
// implementation side interprets: new m k (checks dims) / add key hs / has key hs / bits
func filterExec(ops []string) []string {
	res := make([]string, len(ops))
	// the implementation builds the filter from all "add" keys at once (filter.Build), then answers
	var keys []types.Entry
	for _, op := range ops {
		t := strings.Split(op, " ")
		if t[0] == "add" {
			keys = append(keys, types.Entry{Key: types.KeyWithTs(string(unhx(t[1])), uint64(len(keys)+1))})
		}
	}
	f := filter.Build(keys)
	m, k := f.VerifDims()
	for i, op := range ops {
		t := strings.Split(op, " ")
		switch t[0] {
		case "new":
			if t[1] != strconv.Itoa(m) || t[2] != strconv.Itoa(k) {
				res[i] = fmt.Sprintf("dims %d %d", m, k)
			} else {
				res[i] = "ok"
			}
		case "add":
			res[i] = "ok"
		case "has":
			res[i] = b01(f.Contains(string(unhx(t[1]))))
		case "bits":
			var sb strings.Builder
			for _, b := range f.VerifBits() {
				if b {
					sb.WriteByte('1')
				} else {
					sb.WriteByte('0')
				}
			}
			res[i] = sb.String()
		}
	}
	return res
}

func filterGen(r *rand.Rand, n int, maxN int) []Case {
	var cases []Case
	for c := 0; c < n; c++ {
		cnt := 1 + r.Intn(maxN)
		if r.Intn(4) == 0 {
			cnt = 1 + r.Intn(4)
		}
		if c%100 == 99 {
			// a few filters with many thousands of entries (the model's bit list makes these expensive to replay)
			cnt = 4 * maxN
		}
		// dims exactly as filter.New computes them: ask the implementation once
		var ents []types.Entry
		var keys []string
		manyVersions := r.Intn(4) == 0
		for i := 0; i < cnt; i++ {
			k := pickKey(r, 18)
			if r.Intn(2) == 0 {
				k = fmt.Sprintf("key-%d", r.Intn(cnt*2))
			}
			if r.Intn(7) == 0 && cnt <= 300 {
				// long keys, around and far above typical buffer sizes (small filters only: the model's key lookup is linear) (32, 64, 128, 256 …)
				n := []int{31, 32, 33, 63, 64, 65, 66, 127, 128, 129, 200, 255, 256, 257, 1000, 5000}[r.Intn(16)]
				b := make([]byte, n)
				for j := range b {
					b[j] = byte('a' + r.Intn(4))
				}
				// a shared long prefix: keys that differ only beyond a fixed-size buffer
				if i > 0 && r.Intn(2) == 0 && len(keys[i-1]) >= n {
					copy(b, keys[i-1][:n-1])
				}
				k = string(b)
			}
			if manyVersions && i > 0 && r.Intn(2) == 0 {
				k = keys[0]
			}
			keys = append(keys, k)
			ents = append(ents, types.Entry{Key: types.KeyWithTs(k, uint64(i+1))})
		}
		f := filter.Build(ents)
		m, k := f.VerifDims()
		ops := []string{fmt.Sprintf("new %d %d", m, k)}
		for _, key := range keys {
			ops = append(ops, fmt.Sprintf("add %s %s", hxs(key), murmurs(key, k)))
		}
		tags := []string{"members"}
		for _, key := range keys {
			ops = append(ops, fmt.Sprintf("has %s %s", hxs(key), murmurs(key, k)))
		}
		for i := 0; i < cnt+5; i++ {
			key := fmt.Sprintf("absent-%d-%d", c, i)
			if r.Intn(3) == 0 {
				key = pickKey(r, 18)
			}
			ops = append(ops, fmt.Sprintf("has %s %s", hxs(key), murmurs(key, k)))
		}
		if manyVersions {
			tags = append(tags, "many-versions")
		}
		if cnt <= 80 {
			ops = append(ops, "bits")
			tags = append(tags, "bits")
		}
		cases = append(cases, Case{Ops: ops, Tags: tags})
	}
	return cases
}

// ---------- skiplist : pkg/skiplist/skiplist.go ----------

func showEntry(e types.Entry) string {
	return fmt.Sprintf("%s@%d:%s:%s:%d", hxs(types.ParseKey(e.Key)), types.ParseTs(e.Key), hx(e.Value), b01(e.Tombstone), e.Version)
}

func showOpt(e types.Entry, ok bool) string {
	if !ok {
		return "none"
	}
	return showEntry(e)
}

func showEntries(es []types.Entry) string {
	if len(es) == 0 {
		return "[]"
	}
	var ss []string
	for _, e := range es {
		ss = append(ss, showEntry(e))
	}
	return strings.Join(ss, ",")
}

func vkey(u, ts string) string {
	t, _ := strconv.ParseUint(ts, 10, 64)
	return types.KeyWithTs(string(unhx(u)), t)
}

func skipExec(ops []string) []string {
	res := make([]string, len(ops))
	var s *skiplist.SkipList
	// the values handed to Set are consecutive windows of one buffer, as a caller that decodes many entries from one block
	// would pass them: each window's capacity reaches into the windows after it, and equal values are the same window.  The
	// caller never writes to them afterwards; a sorted map must not either (another key's value, or a result returned
	// earlier, would change)
	arena := make([]byte, 0, 1<<16)
	windows := map[string][]byte{}
	for i, op := range ops {
		t := strings.Split(op, " ")
		switch t[0] {
		case "new":
			ml, _ := strconv.Atoi(t[1])
			p, _ := strconv.ParseFloat(t[2], 64)
			s = skiplist.New(ml, p)
			arena = make([]byte, 0, 1<<16)
			windows = map[string][]byte{}
			res[i] = "ok"
		case "set":
			ver, _ := strconv.ParseInt(t[5], 10, 64)
			v, ok := windows[t[3]]
			if !ok {
				raw := unhx(t[3])
				start := len(arena)
				arena = append(arena, raw...)
				v = arena[start:len(arena)]
				if raw == nil {
					v = nil
				}
				windows[t[3]] = v
			}
			s.Set(types.Entry{Key: vkey(t[1], t[2]), Value: v, Tombstone: t[4] == "1", Version: ver})
			res[i] = "ok"
		case "get":
			res[i] = showOpt(s.Get(vkey(t[1], t[2])))
		case "lb":
			res[i] = showOpt(s.LowerBound(vkey(t[1], t[2])))
		case "scan":
			res[i] = showEntries(s.Scan(vkey(t[1], t[2]), vkey(t[3], t[4])))
		case "all":
			res[i] = showEntries(s.All())
		case "del":
			res[i] = b01(s.Delete(vkey(t[1], t[2])))
		}
	}
	return res
}

func skipGen(r *rand.Rand, n, length int) []Case {
	var cases []Case
	mls := []int{1, 2, 4, 9, 32}
	ps := []string{"0.01", "0.25", "0.5", "0.99"}
	for c := 0; c < n; c++ {
		ml := mls[r.Intn(len(mls))]
		ops := []string{fmt.Sprintf("new %d %s", ml, ps[r.Intn(len(ps))])}
		nk := 2 + r.Intn(10)
		caseKeys = nil
		if c%2 == 1 {
			// every other case: a universe drawn from all special keys (NUL bytes, '@', prefixes of one another …), not the front
			caseKeys = subsetKeys(r, nk)
		}
		tags := map[string]bool{}
		live := map[string]bool{}
		for i := 0; i < length; i++ {
			u := hxs(pickKey(r, nk))
			ts := uint64(r.Intn(6))
			if r.Intn(10) == 0 {
				ts = pickTs(r)
			}
			id := fmt.Sprintf("%s %d", u, ts)
			switch x := r.Intn(20); {
			case x < 9:
				if live[id] {
					tags["overwrite"] = true
				}
				live[id] = true
				tomb := r.Intn(5) == 0
				if tomb {
					tags["tombstone"] = true
				}
				ops = append(ops, fmt.Sprintf("set %s %s %s %d %d", id, hx(pickValue(r, i)), b01(tomb), r.Intn(100), 1+r.Intn(ml)))
			case x < 12:
				ops = append(ops, "get "+id)
			case x < 15:
				ops = append(ops, "lb "+id)
			case x < 17:
				ops = append(ops, fmt.Sprintf("scan %s %s %d", id, hxs(pickKey(r, nk)), r.Intn(6)))
				tags["scan"] = true
			case x < 18:
				ops = append(ops, "all")
			default:
				if live[id] {
					tags["delete-hit"] = true
				}
				delete(live, id)
				ops = append(ops, "del "+id)
			}
		}
		ops = append(ops, "all")
		var tl []string
		for t := range tags {
			tl = append(tl, t)
		}
		caseKeys = nil
		cases = append(cases, Case{Ops: ops, Tags: tl})
	}
	return cases
}

// ---------- wm : pkg/watermark/watermark.go ----------

func wmExec(ops []string) []string {
	res := make([]string, len(ops))
	var w *watermark.WaterMark
	defer func() {
		if w != nil {
			w.Stop()
		}
	}()
	type pendingWait struct {
		idx  int
		ts   uint64
		done chan error
	}
	var waits []pendingWait
	for i, op := range ops {
		t := strings.Split(op, " ")
		switch t[0] {
		case "new":
			if w != nil {
				w.Stop()
			}
			w = watermark.New()
			waits = nil
			res[i] = "ok"
		case "b", "d":
			ts, _ := strconv.ParseUint(t[1], 10, 64)
			if t[0] == "b" {
				w.Begin(ts)
			} else {
				w.Done(ts)
			}
			w.VerifSync()
			res[i] = strconv.FormatUint(w.DoneUntil(), 10)
		case "burst":
			// many marks in flight (more than the channel buffer), then one sync: "burst b:3,d:3,..."
			for _, m := range strings.Split(t[1], ",") {
				kv := strings.Split(m, ":")
				ts, _ := strconv.ParseUint(kv[1], 10, 64)
				if kv[0] == "b" {
					w.Begin(ts)
				} else {
					w.Done(ts)
				}
			}
			w.VerifSync()
			res[i] = strconv.FormatUint(w.DoneUntil(), 10)
		case "wait":
			// "wait id ts": WaitForMark(ts) from its own goroutine with a live context
			id, _ := strconv.Atoi(t[1])
			ts, _ := strconv.ParseUint(t[2], 10, 64)
			done := make(chan error, 1)
			go func() { done <- w.WaitForMark(context.Background(), ts) }()
			// the registration goes through the channel: give the goroutine time to send it, then sync
			time.Sleep(300 * time.Microsecond)
			w.VerifSync()
			waits = append(waits, pendingWait{id, ts, done})
			res[i] = "ok"
		case "chk":
			// "chk id": has that WaitForMark call returned nil? (a call that has to stay blocked costs the full timeout)
			id, _ := strconv.Atoi(t[1])
			res[i] = "unknown"
			for k := range waits {
				if waits[k].idx != id {
					continue
				}
				if waits[k].ts == ^uint64(0) {
					res[i] = "released"
					break
				}
				select {
				case err := <-waits[k].done:
					if err != nil {
						res[i] = "err"
					} else {
						res[i] = "released"
						waits[k].ts = ^uint64(0)
					}
				case <-time.After(40 * time.Millisecond):
					res[i] = "waiting"
				}
			}
		case "herd":
			// "herd n": on a fresh watermark, n goroutines wait for indices 1..5, one Done releases them all at once; every
			// one of them must see DoneUntil at or above its index the moment its WaitForMark returns nil
			n, _ := strconv.Atoi(t[1])
			w2 := watermark.New()
			w2.Begin(5)
			w2.VerifSync()
			var wg sync.WaitGroup
			var early atomic.Int64
			started := make(chan struct{}, n)
			for g := 0; g < n; g++ {
				wg.Add(1)
				go func(g int) {
					defer wg.Done()
					idx := uint64(1 + g%5)
					started <- struct{}{}
					if err := w2.WaitForMark(context.Background(), idx); err == nil && w2.DoneUntil() < idx {
						early.Add(1)
					}
				}(g)
			}
			for g := 0; g < n; g++ {
				<-started
			}
			time.Sleep(2 * time.Millisecond)
			w2.Done(5)
			// every one of them has to come back: a waiter that is still parked after the mark passed its index is reported,
			// not waited for
			all := make(chan struct{})
			go func() { wg.Wait(); close(all) }()
			select {
			case <-all:
				w2.Stop()
				res[i] = fmt.Sprintf("early=%d", early.Load())
			case <-time.After(herdPatience()):
				// (once a herd has stayed parked, the following ones are given little time: the failure is established and the
				// suite has to finish so that the op sequence, not a stack dump at the suite's time limit, is the replay)
				herdTimeouts.Add(1)
				res[i] = fmt.Sprintf("early=%d still-waiting-after-DoneUntil=%d", early.Load(), w2.DoneUntil())
			}
		case "waitctx":
			// WaitForMark with an already cancelled context on an index that is not reached: context error
			ts, _ := strconv.ParseUint(t[1], 10, 64)
			ctx, cancel := context.WithCancel(context.Background())
			cancel()
			err := w.WaitForMark(ctx, ts)
			if err == nil {
				res[i] = "released"
			} else {
				res[i] = "ctxerr"
			}
		}
	}
	return res
}

var herdTimeouts atomic.Int64

func herdPatience() time.Duration {
	if herdTimeouts.Load() > 0 {
		return 300 * time.Millisecond
	}
	return 10 * time.Second
}

func wmGen(r *rand.Rand, n, length int) []Case {
	var cases []Case
	for c := 0; c < n; c++ {
		ops := []string{"new"}
		tags := map[string]bool{}
		nts := 2 + r.Intn(8)
		open := map[uint64]int{}
		var cur uint64
		nwait := 0
		// the small indices of the case are mapped, order-preserving, into a region of the uint64 range: around 2^31, 2^32,
		// 2^63, the very top, or spread so that they lie on both sides of 2^63 (signed/unsigned and width conversions)
		mp := func(t uint64) uint64 { return t }
		switch c % 7 {
		case 2:
			base := []uint64{1<<31 - 3, 1<<32 - 3, 1<<63 - 3, ^uint64(0) - uint64(nts) - 8}[r.Intn(4)]
			mp = func(t uint64) uint64 { return base + t }
			tags["indices-near-a-power-of-two"] = true
		case 5:
			mp = func(t uint64) uint64 { return t * (1 << 59) }
			tags["indices-on-both-sides-of-2^63"] = true
		}
		if c%7 == 3 {
			// a wide window: more than a hundred distinct indices in flight, finished out of order while a few small
			// stragglers stay open; when the stragglers finish, the mark has to catch up over all of them at once
			nw := 101 + r.Intn(230)
			strag := 1 + r.Intn(3)
			for t := 1; t <= nw; t++ {
				ops = append(ops, fmt.Sprintf("b %d", mp(uint64(t))))
			}
			order := r.Perm(nw - strag)
			if r.Intn(2) == 0 {
				for i := range order {
					order[i] = nw - strag - 1 - i
				}
			}
			for _, o := range order {
				ops = append(ops, fmt.Sprintf("d %d", mp(uint64(strag+1+o))))
			}
			nwait++
			ops = append(ops, fmt.Sprintf("wait %d %d", nwait, mp(uint64(nw))))
			for t := strag; t >= 1; t-- {
				ops = append(ops, fmt.Sprintf("d %d", mp(uint64(t))))
			}
			ops = append(ops, fmt.Sprintf("chk %d", nwait), fmt.Sprintf("waitctx %d", mp(uint64(nw))))
			tags["more-than-100-indices-in-flight"] = true
			cur = uint64(nw)
		}
		for i := 0; i < length; i++ {
			ts := uint64(r.Intn(nts))
			if r.Intn(4) == 0 {
				ts = cur + uint64(r.Intn(3))
			}
			switch x := r.Intn(20); {
			case x < 8:
				open[ts]++
				if open[ts] > 1 {
					tags["repeated-index"] = true
				}
				ops = append(ops, fmt.Sprintf("b %d", mp(ts)))
			case x < 16:
				if open[ts] == 0 {
					tags["done-without-begin"] = true
				} else {
					open[ts]--
				}
				ops = append(ops, fmt.Sprintf("d %d", mp(ts)))
			case x < 18:
				// burst of > 100 marks
				var ms []string
				for j := 0; j < 120+r.Intn(100); j++ {
					t2 := uint64(r.Intn(nts + 3))
					if r.Intn(2) == 0 {
						ms = append(ms, fmt.Sprintf("b:%d", mp(t2)))
					} else {
						ms = append(ms, fmt.Sprintf("d:%d", mp(t2)))
					}
				}
				tags["burst>100"] = true
				ops = append(ops, "burst "+strings.Join(ms, ","))
			default:
				ops = append(ops, fmt.Sprintf("b %d", mp(ts)), fmt.Sprintf("d %d", mp(ts)))
				i++
			}
			if r.Intn(40) == 0 {
				ops = append(ops, fmt.Sprintf("herd %d", []int{50, 400, 1500}[r.Intn(3)]))
				tags["herd-of-waiters"] = true
			}
			if r.Intn(12) == 0 && nwait < 6 {
				// a waiter on an index that may or may not be begun/finished itself
				nwait++
				ops = append(ops, fmt.Sprintf("wait %d %d", nwait, mp(uint64(r.Intn(nts+4)))))
				tags["waiter"] = true
			}
			if r.Intn(25) == 0 {
				ops = append(ops, fmt.Sprintf("waitctx %d", mp(uint64(r.Intn(nts+4)))))
			}
			if r.Intn(5) == 0 {
				cur += uint64(r.Intn(2))
			}
		}
		for k := 1; k <= nwait; k++ {
			ops = append(ops, fmt.Sprintf("chk %d", k))
		}
		var tl []string
		for t := range tags {
			tl = append(tl, t)
		}
		if len(tl) == 0 {
			tl = []string{"plain"}
		}
		cases = append(cases, Case{Ops: ops, Tags: tl})
	}
	return cases
}
