package main

import (
	"fmt"
	"math/rand"
	"os"
	"strconv"
	"strings"
	"sync"
	"sync/atomic"
	"time"

	originium "github.com/B1NARY-GR0UP/originium"
	"github.com/B1NARY-GR0UP/originium/pkg/vhook"
)

// ---------- closerace : writers that outrun the flusher, readers beginning during commits, Close racing all of them ----------

// "race <writers> <readers> <perWriter> <memThreshold> <immBuf> <slowFlushMs> <closeAfterMs> <seed>"
func closeraceExec(ops []string) (dops []string, res []string) {
	for _, op := range ops {
		t := strings.Split(op, " ")
		if t[0] != "race" {
			continue
		}
		a := func(i int) int { v, _ := strconv.Atoi(t[i]); return v }
		nw, nr, per, memthr, immbuf, slow, closeAfter, seed := a(1), a(2), a(3), a(4), a(5), a(6), a(7), int64(a(8))
		dir, err := os.MkdirTemp("", "vrace")
		if err != nil {
			panic(err)
		}
		// the lock-region events (and the flusher's flush.done) in the order they happen: followed in the blocking
		// model Sched by the driver (suite sched); everything else is hidden there
		var obsMu sync.Mutex
		var obs []string
		rotated := false
		vhook.Install(&vhook.Handlers{Event: func(name string, args ...any) {
			if name == "flush.begin" && slow > 0 {
				time.Sleep(time.Duration(slow) * time.Millisecond)
			}
			obsMu.Lock()
			defer obsMu.Unlock()
			switch name {
			case "commit.ts":
				rotated = false
				obs = append(obs, "clock")
			case "rotate":
				rotated = true
				obs = append(obs, "capply-rot")
			case "commit.applied":
				if !rotated {
					obs = append(obs, "capply")
				}
			case "commit.done":
				obs = append(obs, "cfin")
			case "flush.done":
				obs = append(obs, "fdone")
			case "close.begin":
				obs = append(obs, "cllock")
			case "close.drained":
				obs = append(obs, "cldrained")
			case "close.done":
				obs = append(obs, "cldone")
			}
		}})
		cfg := originium.Config{SkipListMaxLevel: 4, SkipListP: 0.5, MemtableByteThreshold: memthr, DataBlockByteThreshold: 40,
			L0TargetNum: 2, LevelRatio: 2, ImmutableBuffer: immbuf}
		db, err := originium.Open(dir, cfg)
		if err != nil {
			panic(err)
		}
		var mu sync.Mutex
		acked := map[string]string{}
		var refused []string
		var wg sync.WaitGroup
		var problem atomic.Value
		var slowest atomic.Int64
		timed := func(what string, f func()) {
			start := time.Now()
			f()
			d := time.Since(start)
			for {
				cur := slowest.Load()
				if int64(d) <= cur || slowest.CompareAndSwap(cur, int64(d)) {
					break
				}
			}
		}
		guard := func(f func()) {
			defer wg.Done()
			defer func() {
				if p := recover(); p != nil {
					problem.Store(fmt.Sprintf("panic: %v", p))
				}
			}()
			f()
		}
		for w := 0; w < nw; w++ {
			wg.Add(1)
			go guard(func() {
				r := rand.New(rand.NewSource(seed*100 + int64(w)))
				for i := 0; i < per; i++ {
					k := fmt.Sprintf("w%d-%d", w, i)
					v := fmt.Sprintf("v%d", r.Intn(1000))
					var err error
					timed("update", func() {
						err = db.Update(func(tx *originium.Txn) error { return tx.Set(k, []byte(v)) })
					})
					if err == nil {
						mu.Lock()
						acked[k] = v
						mu.Unlock()
					} else if err != originium.ErrDBClosed {
						problem.Store("unexpected error from Update: " + err.Error())
						return
					} else {
						// refused: must leave no trace (C08)
						mu.Lock()
						refused = append(refused, k)
						mu.Unlock()
						return
					}
				}
			})
		}
		for rd := 0; rd < nr; rd++ {
			wg.Add(1)
			go guard(func() {
				for i := 0; i < per; i++ {
					var err error
					timed("view", func() {
						err = db.View(func(tx *originium.Txn) error { tx.Get("w0-0"); return nil })
					})
					if err == originium.ErrDBClosed {
						return
					}
				}
			})
		}
		wg.Add(1)
		go guard(func() {
			time.Sleep(time.Duration(closeAfter) * time.Millisecond)
			timed("close", func() { db.Close() })
		})
		done := make(chan struct{})
		go func() { wg.Wait(); close(done) }()
		select {
		case <-done:
		case <-time.After(15 * time.Second):
			vhook.Install(nil)
			panic("HANG: Commit / Begin / Close did not all return within 15 s (slowest completed call " +
				time.Duration(slowest.Load()).String() + ")\n" + allStacks())
		}
		vhook.Install(nil)
		out := "ok"
		if p := problem.Load(); p != nil {
			out = p.(string)
		}
		// the directory can be reopened at once with the complete committed state
		if out == "ok" {
			db.VerifStopOracle()
			ents0, _ := os.ReadDir(dir)
			for _, e := range ents0 {
				if strings.HasSuffix(e.Name(), ".log") {
					out = "wal file left after Close returned (a memtable was not flushed): " + e.Name()
				}
			}
			reads, prob, _ := openAndRead(dir, cfg, func() []string {
				var ks []string
				for k := range acked {
					ks = append(ks, k)
				}
				return append(ks, refused...)
			}(), nil)
			if prob != "" {
				out = "reopen after Close: " + prob
			} else {
				for k, v := range acked {
					if reads[k] != v {
						out = fmt.Sprintf("acknowledged commit %s=%s reads %q after Close + Open", k, v, reads[k])
						break
					}
				}
				for _, k := range refused {
					if v, ok := reads[k]; ok {
						out = fmt.Sprintf("Update of %s was answered ErrDBClosed but its write (%q) is visible after Close + Open", k, v)
						break
					}
				}
			}
			ents, _ := os.ReadDir(dir)
			for _, e := range ents {
				if strings.HasSuffix(e.Name(), ".tmp") {
					out = "temporary file left after Close: " + e.Name()
				}
			}
		}
		os.RemoveAll(dir)
		// the observed execution must be an execution of the blocking model (every Update is a Begin and a Commit)
		obsMu.Lock()
		entered := 0
		for _, o := range obs {
			if o == "clock" {
				entered++
			}
		}
		dops = append(dops, fmt.Sprintf("init %d %d", immbuf, entered))
		res = append(res, "ok")
		for _, o := range obs {
			dops = append(dops, "obs "+o)
			res = append(res, "ok")
		}
		obsMu.Unlock()
		dops = append(dops, "closed")
		res = append(res, "ok")
		dops = append(dops, "expectok "+op)
		res = append(res, out)
	}
	return dops, res
}

func closeraceGen(r *rand.Rand, n int) []Case {
	var cases []Case
	for c := 0; c < n; c++ {
		immbuf := []int{0, 0, 1, 2, 10}[r.Intn(5)]
		op := fmt.Sprintf("race %d %d %d %d %d %d %d %d", 1+r.Intn(6), r.Intn(5), 10+r.Intn(30), []int{40, 60, 200}[r.Intn(3)], immbuf, r.Intn(4), r.Intn(12), r.Intn(1<<20))
		cases = append(cases, Case{Ops: []string{op}, Tags: []string{fmt.Sprintf("immbuf=%d", immbuf)}})
	}
	return cases
}
