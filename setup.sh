#!/bin/sh
# Builds the framework from files on disk only (offline): Lean library + driver, harness, extractor.
set -e
cd "$(dirname "$0")"
export GOFLAGS=-mod=mod GOPROXY=off
(cd lean && lake build 2>&1 | tail -3)
(cd extract && go build -o verifextract .)
(cd harness && cp /repo/go.sum go.sum && go build -tags verif -o verifharness .)
echo setup done
