"""Texts of MANIFEST.json per property (level claimed, trusted base)."""

NOT_YET = {p: "not claimed yet: model and check are still being built in this round (see DESIGN.md section 5); no other technique is substituted" for p in
           ["C12", "C15"]}

TEXTS = {
    "C01": {
        "text": "Proof: DB.step models commit (any batch), rotate, flushAdd, flushRemove and compaction of ANY subset of tables with any admissible watermark and any block size; Inv (sortedness, consistency, generations ordered up to duplicates, every committed entry present or shadowed at or below the watermark, flushed immutable covered by the tables) is proved for every step (inv_step), hence every reachable state (inv_run); C01_get_snapshot / C01_get_latest: DB.search returns the newest committed version, for every step sequence, key and read timestamp not below a used watermark; C01_background_invisible. Every Config and flusher timing is one of these sequences. Correspondence: real DB with tiny thresholds, flusher gated by hooks so that background steps fall between API calls chosen by the generator; every Get, table content and watermark replayed through the model.",
        "note": "Trusted: Lean kernel, driver, harness/hooks, lock skeleton for step atomicity (re-extracted every run). Lower layers through C17/C10/C16/C09 theorems. murmur3/S2 parameters.",
        "technique": "Lean 4 inductive invariant over all step sequences + refinement to an MVCC map + differential replay of gated real executions",
    },
    "C02": {
        "text": "Proof: C02_reopen: from every state satisfying the invariant Close's steps (drain oldest first, then flush the active memtable) are enabled, end with every memtable in tables, keep the committed history and the invariant, and the counter Open recomputes from stored versions equals the counter before the restart (no timestamp reused); C02_reopen_reads: every key reads as before; C02_still_writable. Correspondence: Close/Open cycles with re-drawn configuration inside the db suite (immediately after rotation, non-empty queue, empty memtable), nextTs, leftover files and all reads compared.",
        "note": "Trusted as C01; table files parsed back by recovery: C11. wal replay after clean Close is empty (checked dynamically).",
        "technique": "Lean 4 proof that Close/Open is a sequence of invariant-preserving steps + differential replay",
    },
    "C03": {
        "text": "Proof: the disk is modelled abstractly (wal files with a synced record prefix, published tables, temporary files); every file-system operation is an event with a decidable guard (the ordering/durability rules: a table is published only complete, synced and with durable content; a wal is removed only when each record is synced in another wal or in a published table and no older record elsewhere could shadow it; inputs of a compaction are removed only when covered by another table; an acknowledgement needs the batch in the synced part of a wal). tinv_accept: every accepted event preserves Inv/WF/Kept/begun, so they hold at every crash point of every accepted trace, including crashes inside recovery (its operations are events). recover_inv: Open on any such disk yields a state satisfying the storage invariant (so the store keeps working: C03_open_recovers); C03_acked_visible, C03_nothing_invented. Tie: the crash suite serialises and records every fs operation of real workloads (flushes, multi-level compactions, Close/Open, slow flusher, pending queue) and replays it through Disk.accept in Lean; a crash image of the directory before every operation is opened with the real Open and compared with the model's recovery and with the acknowledged state; nested crashes inside recovery; a commit after recovery.",
        "note": "Layer (ii) — that the engine only emits operations whose guards hold — is checked on recorded traces, not proved from a program model: the proof covers all traces that pass the guards, the correspondence covers the traces explored. Process-crash model as stated by the property.",
        "technique": "Lean 4 inductive invariant over guarded fs operations + recovery refinement; trace acceptance and exhaustive-per-run crash point enumeration as the tie",
    },
    "C04": {
        "text": "Proof: C04_all_or_nothing: in every accepted trace, at every crash point, a transaction whose commit event happened has all its entries kept (reachable or shadowed by a newer version), one whose commit event has not happened has none on disk; C04_written_visible after recovery; C04_split_commit_witness shows the one-append-per-key protocol of the pinned code violating it. Tie: crash suite — the in-flight multi-key transaction of every crash image must be visible completely or not at all; every wal write during a Commit must carry the whole batch (commit event accepted by the model).",
        "note": "Process-crash model (as the property's quantifier). The accepted-trace hypothesis is checked dynamically (see C03).",
        "technique": "Lean 4 invariant (Kept / begun) over accepted traces + crash point enumeration",
    },
    "C14": {
        "text": "Proof: C14_lossy_crash: for every accepted trace, every crash point and every loss of unsynced tails (CutOf: each wal keeps at least its synced records; temporary files arbitrary; published tables intact) Open recovers an ordinary state and every acknowledged entry is visible unless replaced by a newer write; the 'equivalently' clause is the list of guards (C14_ack_after_sync, C14_publish_after_sync, C14_remove_after_replacement); C14_torn_wal_is_prefix links the byte level (C11). Tie: crash suite cuts the unsynced tail of every file at several lengths at every crash point and opens the result with the real Open; trace acceptance detects a missing or moved Sync deterministically.",
        "note": "Directory operations ordered and durable (as the property states). Sync semantics of the OS trusted. Accepted-trace hypothesis checked dynamically.",
        "technique": "Lean 4 proof that tail loss preserves the disk invariant + recovery theorem; trace acceptance + cut enumeration",
    },
    "C05": {
        "text": "Proof: Sys.step models Begin (timestamp, then wait for commitMark), Get, Set/Delete, Commit (commitStart under writeLock with conflict check, apply of the batch, commitDone), Discard, watermark publication and every background storage step, for any number of transactions; the coupling invariant SInv (storage content = entries of the applied commit history, version-discard watermark below every open reader, a transaction that has begun sees every commit up to its read timestamp applied) is proved for every step; C05_snapshot: every Get = own writes overlaid on the MVCC map at readTs, C05_stable, C05_prefix (whole transactions, prefix of commit order), C05_includes_earlier / C05_excludes_later (real-time clauses), C05_gc_safe. Correspondence: db suite with up to 6 interleaved open transactions incl. long-lived readers across rotation, flush, compaction with GC, every Get/readTs/watermark/compaction content replayed through the model.",
        "note": "Trusted: Lean kernel, driver, harness/hooks, lock skeleton (re-extracted). Commit/Begin granularity as stated; the model's abstract oracle is proved coupled to the storage, not assumed.",
        "technique": "Lean 4 coupling invariant (refinement of storage to an MVCC map under all interleavings) + differential replay",
    },
    "C06": {
        "text": "Proof: C06_serial_reads (in every reachable state of every interleaving each store read of a transaction committed at c equals the MVCC value at c-1, i.e. what serial execution in commit-timestamp order gives; every read equals the value at readTs), C06_real_time and C06_commit_after_snapshot (a transaction begun after another's Commit succeeded is ordered after it), C06_validated (an accepted Commit read nothing overwritten in between: no lost update / write skew on read keys), C06_only_committed. Correspondence: interleaved transactions in the db suite; free-running goroutine histories (counters, transfers, write-skew pairs) checked against the serial order by commit timestamp in the txnconc suite.",
        "note": "The Go scheduler's interleavings are covered at the modelled step granularity (tied by the skeleton); the serial-order checker of txnconc is a Go reimplementation of the spec used only for validation/search.",
        "technique": "Lean 4 invariant proof (reads stable in the window (readTs, commitTs)) + differential replay + recorded-history validation",
    },
    "C07": {
        "text": "Proof: C07_conflict_iff / C07_refused_iff: in every reachable state the Commit of a transaction that wrote something is refused iff a key it read from the store was written by a commit above its read timestamp — both directions, including histories in which the committed-transaction list is cleaned up under an arbitrarily lagging watermark and long-lived readers; C07_always_commit; C07_refused_applies_nothing. Correspondence: db suite (conflict outcome of every Commit compared), incl. reads of absent keys, deletes, reads after own writes.",
        "note": "Read/write sets are keys (F14 fixed). Trusted as C05.",
        "technique": "Lean 4 invariant proof of the oracle + differential replay",
    },
    "C08": {
        "text": "Proof: C08_no_effect (Begin/Get/Set/Delete/Discard and refused or empty Commits change neither storage nor history nor counter), C08_history_only_committed (every commit any reader can observe was produced by a successful Commit with exactly its writes), C08_storage_only_history (tables and memtables hold only history entries, through flush/compaction/reopen steps); misuse decision logic stated outright (C08_write_in_readonly, C08_use_after_finish, C08_empty_key, C08_oversize, C08_after_close, C08_accepts) on the functions the driver executes. Correspondence: db suite with discards at every position, finished-handle misuse, empty keys, oversize values, calls after Close, across rotations and reopen.",
        "note": "Update-closure errors are Discard (the closure's error path calls the deferred Discard). Trusted as C05.",
        "technique": "Lean 4 frame + provenance invariants, decision logic stated outright + differential replay",
    },
    "C09": {
        "text": "Proof: theorems C09_preserves / C09_only_shadowed / C09_no_invention / C09_sorted_nonempty hold for every set of tables, every choice of compaction inputs, every watermark, every block size and every (key, ts >= watermark) — by induction over entry lists, no bound. The model (LSM.mergeVersions, discardStale, buildTable, search) is executable and is compared with level.go (flushToL0, checkAndCompact incl. cascades, recover, searchLowerBound) on generated layouts, output contents and all lookups of the universe; lookups are also compared with a brute-force specification proved correct (newestBrute_newest).",
        "note": "Trusted: Lean kernel (+propext, Classical.choice, Quot.sound), driver compilation, harness/hooks. Modelled not verified: kway heap merge (observational model: sorted, later list wins), S2, murmur3/bloom (arbitrary predicate without false negatives), file I/O. Hypothesis: consistent contents (same versioned key => same entry).",
        "technique": "Lean 4 proof (acceptance predicate + uniqueness of newest version) + differential correspondence through a verif level manager",
    },
    "C10": {
        "text": "Proof: the Go binary-search loops are modelled literally (BS.loop on Nat with hiX = high+1) and proved equal to a linear scan for every sorted list; C10_table for every block size (one entry per block included), C10_lookup_newest / C10_lookup_unique for every number of tables, any level layout, any bloom filter without false negatives, every (key, ts). Correspondence: real tables built, recovered from files and searched for every (key, ts) of generated universes, vs model and brute-force specification.",
        "note": "Trusted: Lean kernel, driver, harness. Tables are assumed strictly sorted (true of flush/compaction outputs: C17, C09_sorted_nonempty); the filter is an arbitrary predicate without false negatives (C16).",
        "technique": "Lean 4 proof of the literal binary-search loops and of lookup-over-all-tables + differential correspondence",
    },
    "C11": {
        "text": "Proof: every layout is written out byte for byte (data block with prefix compression and 16 bit guard, index, footer, meta, the table file as table.Build lays it out, the recovery parser, wal framing with the thrift layout of Entry, the tolerant wal reader) and round-trip theorems C11_*_roundtrip hold for all inputs (empty/binary strings, any shared prefixes, every split into blocks); C11_wal_torn: a wal cut anywhere reads as a prefix. Correspondence: real encoders/decoders vs model byte for byte (S2 removed / supplied as a table), table.Build output identical to the model's file, real recovery of complete and cut files, wal read-back at random cut lengths, concurrent encoders whose results are re-checked, lengths around 2^16.",
        "note": "Second sentence (returned bytes never change) is partial: proved on the ownership model Pool.lean (C11_result_not_pooled, C11_alias_witness) and tied statically (extractor: every encoder returns bytes.Clone) and dynamically (concurrent encoders); physical aliasing is a runtime fact. S2 and frugal are parameters/assumptions as stated.",
        "technique": "Lean 4 round-trip proofs over byte-level codecs + differential byte-for-byte correspondence",
    },
    "C13": {
        "text": "Proof: the process loop is a fold over the FIFO mark sequence; C13_monotone, C13_never_passes (global begin/finish counts), C13_catches_up (matched counts), C13_wait (waiters released only when reached, never lost, blocked ones are below their index) hold for every sequence: repeated indices, out-of-order completion, Done without Begin, any number of marks in flight. Correspondence: real WaterMark vs model after every mark (VerifSync), bursts beyond the channel buffer, waiters.",
        "note": "Partial for the wall-clock clauses (\"returns once that is the case\", context cancellation timing): runtime behaviour no executable model exhibits. container/heap and FIFO channels trusted.",
        "technique": "Lean 4 invariant proof over all mark sequences + differential correspondence",
    },
    "C16": {
        "text": "Proof: C16_no_false_negative for every hash family, every k (also 0), every m > 0 and every entry list (any size, any bytes, many versions of a key); C16_rebuilt for filters rebuilt from decoded table contents. Correspondence: real filter.Build/Contains vs model fed with the real murmur3 values, members and non-members and the whole bitset.",
        "note": "Trusted: murmur3 as an arbitrary hash family; m > 0 from the floating point sizing formula is checked by the harness for every n up to a bound, not proved.",
        "technique": "Lean 4 proof (bits are only ever set) + differential correspondence incl. bit-level comparison",
    },
    "C17": {
        "text": "Proof: tower model with the literal level-descending search; findPos_eq shows it ends at the first node >= target for every maxLevel >= 1 and every height assignment >= 1 (every p, every seed); C17_refines / C17_queries: every reachable state is the sorted association list and Get, LowerBound, Scan, All, Delete answer as the sorted map does; C17_set_existing. Correspondence: real skiplist with maxLevel in {1,2,4,9,32}, p in {0.01..0.99} on random op sequences.",
        "note": "The next-pointer relinking of Set/Delete is abstracted (level i = nodes of height > i in key order); that abstraction is covered by the correspondence suite only. CompareKeys on key@ts strings = (user asc, ts desc): Key.compareKeys_keyWithTs + suite key.",
        "technique": "Lean 4 refinement proof (tower search = sorted map) + differential correspondence",
    },
}
