"""Texts of MANIFEST.json per property (level claimed, trusted base)."""

NOT_YET = {p: "not claimed yet: model and check are still being built in this round (see DESIGN.md section 5); no other technique is substituted" for p in
           ["C01", "C02", "C03", "C04", "C05", "C06", "C07", "C08", "C12", "C14", "C15"]}

TEXTS = {
    "C09": {
        "text": "Proof: theorems C09_preserves / C09_only_shadowed / C09_no_invention / C09_sorted_nonempty hold for every set of tables, every choice of compaction inputs, every watermark, every block size and every (key, ts >= watermark) — by induction over entry lists, no bound. The model (LSM.mergeVersions, discardStale, buildTable, search) is executable and is compared with level.go (flushToL0, checkAndCompact incl. cascades, recover, searchLowerBound) on generated layouts, output contents and all lookups of the universe; lookups are also compared with a brute-force specification proved correct (newestBrute_newest).",
        "note": "Trusted: Lean kernel (+propext, Classical.choice, Quot.sound), driver compilation, harness/hooks. Modelled not verified: kway heap merge (observational model: sorted, later list wins), S2, murmur3/bloom (arbitrary predicate without false negatives), file I/O. Hypothesis: consistent contents (same versioned key => same entry).",
        "technique": "Lean 4 proof (acceptance predicate + uniqueness of newest version) + differential correspondence through a verif level manager",
    },
    "C10": {
        "text": "Proof: the Go binary-search loops are modelled literally (BS.loop on Nat with hiX = high+1) and proved equal to a linear scan for every sorted list; C10_table for every block size (one entry per block included), C10_lookup_newest / C10_lookup_unique for every number of tables, any level layout, any bloom filter without false negatives, every (key, ts). Correspondence: real tables built, recovered from files and searched for every (key, ts) of generated universes, vs model and brute-force specification.",
        "note": "Trusted: Lean kernel, driver, harness. Tables are assumed strictly sorted (true of flush/compaction outputs: C17, C09_sorted_nonempty); the filter is an arbitrary predicate without false negatives (C16).",
        "technique": "Lean 4 proof of the literal binary-search loops and of lookup-over-all-tables + differential correspondence",
    },
    "C11": {
        "text": "Proof: every layout is written out byte for byte (data block with prefix compression and 16 bit guard, index, footer, meta, the table file as table.Build lays it out, the recovery parser, wal framing with the thrift layout of Entry, the tolerant wal reader) and round-trip theorems C11_*_roundtrip hold for all inputs (empty/binary strings, any shared prefixes, every split into blocks); C11_wal_torn: a wal cut anywhere reads as a prefix. Correspondence: real encoders/decoders vs model byte for byte (S2 removed / supplied as a table), table.Build output identical to the model's file, real recovery of complete and cut files, wal read-back at random cut lengths, concurrent encoders whose results are re-checked, lengths around 2^16.",
        "note": "Second sentence (returned bytes never change) is partial: proved on the ownership model Pool.lean (C11_result_not_pooled, C11_alias_witness) and tied statically (extractor: every encoder returns bytes.Clone) and dynamically (concurrent encoders); physical aliasing is a runtime fact. S2 and frugal are parameters/assumptions as stated.",
        "technique": "Lean 4 round-trip proofs over byte-level codecs + differential byte-for-byte correspondence",
    },
    "C13": {
        "text": "Proof: the process loop is a fold over the FIFO mark sequence; C13_monotone, C13_never_passes (global begin/finish counts), C13_catches_up (matched counts), C13_wait (waiters released only when reached, never lost, blocked ones are below their index) hold for every sequence: repeated indices, out-of-order completion, Done without Begin, any number of marks in flight. Correspondence: real WaterMark vs model after every mark (VerifSync), bursts beyond the channel buffer, waiters.",
        "note": "Partial for the wall-clock clauses (\"returns once that is the case\", context cancellation timing): runtime behaviour no executable model exhibits. container/heap and FIFO channels trusted.",
        "technique": "Lean 4 invariant proof over all mark sequences + differential correspondence",
    },
    "C16": {
        "text": "Proof: C16_no_false_negative for every hash family, every k (also 0), every m > 0 and every entry list (any size, any bytes, many versions of a key); C16_rebuilt for filters rebuilt from decoded table contents. Correspondence: real filter.Build/Contains vs model fed with the real murmur3 values, members and non-members and the whole bitset.",
        "note": "Trusted: murmur3 as an arbitrary hash family; m > 0 from the floating point sizing formula is checked by the harness for every n up to a bound, not proved.",
        "technique": "Lean 4 proof (bits are only ever set) + differential correspondence incl. bit-level comparison",
    },
    "C17": {
        "text": "Proof: tower model with the literal level-descending search; findPos_eq shows it ends at the first node >= target for every maxLevel >= 1 and every height assignment >= 1 (every p, every seed); C17_refines / C17_queries: every reachable state is the sorted association list and Get, LowerBound, Scan, All, Delete answer as the sorted map does; C17_set_existing. Correspondence: real skiplist with maxLevel in {1,2,4,9,32}, p in {0.01..0.99} on random op sequences.",
        "note": "The next-pointer relinking of Set/Delete is abstracted (level i = nodes of height > i in key order); that abstraction is covered by the correspondence suite only. CompareKeys on key@ts strings = (user asc, ts desc): Key.compareKeys_keyWithTs + suite key.",
        "technique": "Lean 4 refinement proof (tower search = sorted map) + differential correspondence",
    },
}
